//! C18 — AddrMap get/lookup, mapped-address classification, to_transport_addr.
//!
//! raw case:  `K`                                   constants probe
//!            `T <script> <ops of thread 0> / <ops of thread 1> / ...`
//! script  = `-` or a string of digits j, each the candidate `pool(j)` of the scripted generator
//! op      = `g<kind>:<key>`            map.get            (kind 0 endpoint, 1 relay, 2 custom, 3 scripted)
//!           `l<kind>:<addr>`           try_from + map.lookup
//!           `t:<sockaddr>`             to_transport_addr
//!           `c:<sockaddr>`             MultipathMappedAddr::from
//! addr    = `x<32 hex>` | `@<j>` (octets returned by the j-th op of the same thread)
//!           | `@<j>^<i>.<hh>` (the same with byte i xor hh)
//! sockaddr= `4.<u32>.<port>` | `6.<addr>.<port>.<flow>.<scope>`
//! With one thread the ops run sequentially; with several the threads run concurrently and
//! the case is replayed in the order in which the calls entered the map's critical section.
use std::net::{Ipv4Addr, Ipv6Addr, SocketAddr, SocketAddrV4, SocketAddrV6};

use hcommon::*;
use iroh::verif_hooks::c18 as hk;

#[derive(Clone, Debug)]
enum ASpec {
    Lit([u8; 16]),
    Ref(usize, Option<(usize, u8)>),
}

#[derive(Clone, Debug)]
enum SaSpec {
    V4(u32, u16),
    V6(ASpec, u16, u32, u32),
}

#[derive(Clone, Debug)]
enum Op {
    Get(u8, u64),
    Lookup(u8, ASpec),
    Transport(SaSpec),
    Classify(SaSpec),
}

#[derive(Clone, Debug)]
enum Obs {
    Addr(SocketAddr),
    NotTyped,
    Key(Option<u64>),
    Transport(Option<hk::TAddr>),
    Class(u8, [u8; 16], SocketAddr),
}

// ---------------------------------------------------------------- raw format
fn aspec_raw(a: &ASpec) -> String {
    match a {
        ASpec::Lit(o) => format!("x{}", hex(o)),
        ASpec::Ref(j, None) => format!("@{j}"),
        ASpec::Ref(j, Some((i, x))) => format!("@{j}^{i}.{x:02x}"),
    }
}

fn aspec_parse(s: &str) -> ASpec {
    if let Some(h) = s.strip_prefix('x') {
        let v = unhex(h);
        ASpec::Lit(v.try_into().expect("16 octets"))
    } else {
        let r = s.strip_prefix('@').expect("addr spec");
        match r.split_once('^') {
            None => ASpec::Ref(r.parse().unwrap(), None),
            Some((j, m)) => {
                let (i, x) = m.split_once('.').unwrap();
                ASpec::Ref(
                    j.parse().unwrap(),
                    Some((i.parse().unwrap(), u8::from_str_radix(x, 16).unwrap())),
                )
            }
        }
    }
}

fn sa_raw(s: &SaSpec) -> String {
    match s {
        SaSpec::V4(ip, p) => format!("4.{ip}.{p}"),
        SaSpec::V6(a, p, f, sc) => format!("6.{}.{p}.{f}.{sc}", aspec_raw(a)),
    }
}

fn sa_parse(s: &str) -> SaSpec {
    if let Some(r) = s.strip_prefix("4.") {
        let (ip, p) = r.split_once('.').unwrap();
        SaSpec::V4(ip.parse().unwrap(), p.parse().unwrap())
    } else {
        let r = s.strip_prefix("6.").expect("sockaddr spec");
        // the addr spec may contain one '.', so split from the right
        let mut it = r.rsplitn(4, '.');
        let sc = it.next().unwrap().parse().unwrap();
        let f = it.next().unwrap().parse().unwrap();
        let p = it.next().unwrap().parse().unwrap();
        SaSpec::V6(aspec_parse(it.next().unwrap()), p, f, sc)
    }
}

fn op_raw(o: &Op) -> String {
    match o {
        Op::Get(k, key) => format!("g{k}:{key}"),
        Op::Lookup(k, a) => format!("l{k}:{}", aspec_raw(a)),
        Op::Transport(s) => format!("t:{}", sa_raw(s)),
        Op::Classify(s) => format!("c:{}", sa_raw(s)),
    }
}

fn op_parse(t: &str) -> Op {
    let (h, r) = t.split_once(':').expect("op");
    match h.as_bytes()[0] {
        b'g' => Op::Get(h[1..].parse().unwrap(), r.parse().unwrap()),
        b'l' => Op::Lookup(h[1..].parse().unwrap(), aspec_parse(r)),
        b't' => Op::Transport(sa_parse(r)),
        b'c' => Op::Classify(sa_parse(r)),
        _ => panic!("bad op {t}"),
    }
}

// ---------------------------------------------------------------- generator
/// prefix (8 octets) of the real kinds, as the generator believes them to be
/// (boundary cases are built around these; the model holds its own copy).
fn prefix(kind: u8) -> [u8; 8] {
    let sub = match kind {
        0 => 0,
        1 => 1,
        _ => 3,
    };
    [0xfd, 0x15, 0x07, 0x0a, 0x51, 0x0b, 0x00, sub]
}

/// candidates of the scripted generator: a pool of 4, so collisions are the rule
fn pool(j: u64) -> [u8; 16] {
    let mut o = [0x5cu8; 16];
    o[15] = j as u8;
    o
}

fn gen_octets(rng: &mut Rng) -> [u8; 16] {
    let mut o = [0u8; 16];
    match rng.below(10) {
        0..=4 => {
            // a reserved prefix, possibly one byte off by one, or another subnet
            let k = rng.below(3) as u8;
            o[..8].copy_from_slice(&prefix(k));
            o[8..].copy_from_slice(&rng.bytes(8));
            match rng.below(6) {
                0 | 1 => {
                    let i = rng.below(8) as usize;
                    o[i] = if rng.chance(1, 2) { o[i].wrapping_add(1) } else { o[i].wrapping_sub(1) };
                }
                2 => o[7] = rng.below(5) as u8,
                3 => o[8..].copy_from_slice(&[0xff; 8]),
                _ => {}
            }
        }
        5 => {
            // IPv4-mapped and near misses
            o[10] = 0xff;
            o[11] = 0xff;
            o[12..].copy_from_slice(&rng.bytes(4));
            if rng.chance(1, 3) {
                let i = rng.below(12) as usize;
                o[i] ^= 1 << rng.below(8);
            }
        }
        6 => o[15] = rng.below(2) as u8, // :: and ::1
        7 => o = pool(rng.below(4)),
        _ => o.copy_from_slice(&rng.bytes(16)),
    }
    o
}

fn gen_aspec(rng: &mut Rng, gets: &[(usize, u8)], want: Option<u8>) -> ASpec {
    let same: Vec<usize> = gets.iter().filter(|g| Some(g.1) == want).map(|g| g.0).collect();
    if !gets.is_empty() && rng.chance(3, 4) {
        let j = if !same.is_empty() && rng.chance(5, 6) {
            *rng.pick(&same)
        } else {
            rng.pick(gets).0
        };
        match rng.below(8) {
            0 => ASpec::Ref(j, Some((rng.below(8) as usize, 1 << rng.below(8)))),
            1 => ASpec::Ref(j, Some((8 + rng.below(8) as usize, 1 << rng.below(8)))),
            _ => ASpec::Ref(j, None),
        }
    } else if want == Some(3) || rng.chance(1, 6) {
        ASpec::Lit(pool(rng.below(5)))
    } else {
        ASpec::Lit(gen_octets(rng))
    }
}

fn gen_sa(rng: &mut Rng, gets: &[(usize, u8)]) -> SaSpec {
    if rng.chance(1, 6) {
        SaSpec::V4(
            *rng.pick(&[0u32, 0x7f000001, 0xfd15070a, 0xffffffff, 0x0a000001]),
            rng.below(65536) as u16,
        )
    } else {
        let want = Some(rng.below(3) as u8);
        let port = if rng.chance(1, 2) { 12345 } else { rng.below(65536) as u16 };
        let (flow, scope) = if rng.chance(2, 3) { (0, 0) } else { (rng.below(3) as u32, rng.below(3) as u32) };
        SaSpec::V6(gen_aspec(rng, gets, want), port, flow, scope)
    }
}

fn gen_thread(rng: &mut Rng, len: usize, kinds: &[u8], nkeys: u64, classy: bool) -> Vec<Op> {
    let mut ops = Vec::new();
    let mut gets: Vec<(usize, u8)> = Vec::new();
    for j in 0..len {
        let kind = *rng.pick(kinds);
        let c = if classy { 6 + rng.below(4) } else { rng.below(10) };
        let op = match c {
            0..=3 => {
                gets.push((j, kind));
                Op::Get(kind, rng.below(nkeys))
            }
            4 | 5 | 6 => Op::Lookup(kind, gen_aspec(rng, &gets, Some(kind))),
            7 => Op::Transport(gen_sa(rng, &gets)),
            8 if classy => Op::Transport(gen_sa(rng, &gets)),
            _ => Op::Classify(gen_sa(rng, &gets)),
        };
        ops.push(op);
    }
    ops
}

fn generate(rng: &mut Rng, i: u64, _n: u64) -> String {
    if i == 0 {
        return "K".into();
    }
    let all: &[u8] = &[0, 1, 2, 3, 3];
    let script: Vec<[u8; 16]> = (0..rng.below(24)).map(|_| pool(rng.below(4))).collect();
    let nkeys = if rng.chance(1, 5) { hk::NKEYS } else { rng.range(2, 6) };
    let threads: Vec<Vec<Op>> = match rng.below(4) {
        0 | 1 => {
            let len = rng.range(1, 24.min(3 + i)) as usize;
            let kinds: Vec<u8> = if rng.chance(1, 2) { all.to_vec() } else { vec![*rng.pick(all)] };
            vec![gen_thread(rng, len, &kinds, nkeys, false)]
        }
        2 => {
            // hammer: several threads, usually on one map
            let nt = rng.range(2, 8);
            let kinds: Vec<u8> = if rng.chance(3, 4) { vec![*rng.pick(all)] } else { all.to_vec() };
            (0..nt)
                .map(|_| {
                    let len = rng.range(1, 10) as usize;
                    gen_thread(rng, len, &kinds, nkeys, false)
                })
                .collect()
        }
        _ => {
            let len = rng.range(1, 20) as usize;
            vec![gen_thread(rng, len, &[0, 1, 2], nkeys, true)]
        }
    };
    let s = if script.is_empty() {
        "-".to_string()
    } else {
        script.iter().map(|o| format!("{:x}", o[15])).collect::<String>()
    };
    let t: Vec<String> = threads
        .iter()
        .map(|ops| ops.iter().map(op_raw).collect::<Vec<_>>().join(" "))
        .collect();
    format!("T {s} {}", t.join(" / "))
}

// ---------------------------------------------------------------- execution
fn resolve(a: &ASpec, results: &[Obs]) -> [u8; 16] {
    match a {
        ASpec::Lit(o) => *o,
        ASpec::Ref(j, m) => {
            let mut o = match results.get(*j) {
                Some(Obs::Addr(SocketAddr::V6(sa))) => sa.ip().octets(),
                _ => [0; 16],
            };
            if let Some((i, x)) = m {
                o[*i % 16] ^= *x;
            }
            o
        }
    }
}

fn resolve_sa(s: &SaSpec, results: &[Obs]) -> SocketAddr {
    match s {
        SaSpec::V4(ip, p) => SocketAddr::V4(SocketAddrV4::new(Ipv4Addr::from(*ip), *p)),
        SaSpec::V6(a, p, f, sc) => {
            SocketAddr::V6(SocketAddrV6::new(Ipv6Addr::from(resolve(a, results)), *p, *f, *sc))
        }
    }
}

/// An op with its references resolved (what the model gets to see).
#[derive(Clone, Debug)]
enum COp {
    Get(u8, u64, Vec<[u8; 16]>),
    Lookup(u8, [u8; 16]),
    Transport(SocketAddr),
    Classify(SocketAddr),
}

fn exec_thread(maps: &hk::Maps, t: u32, ops: &[Op], shake: Option<u64>) -> Vec<(COp, Obs)> {
    let mut results: Vec<Obs> = Vec::new();
    let mut out = Vec::new();
    let mut sh = shake.map(Rng::new);
    for (j, op) in ops.iter().enumerate() {
        if let Some(r) = sh.as_mut() {
            match r.below(4) {
                0 => std::thread::yield_now(),
                1 => {
                    for _ in 0..r.below(200) {
                        std::hint::spin_loop();
                    }
                }
                _ => {}
            }
        }
        hk::set_cur(Some((t, j as u32)));
        let (c, o) = match op {
            Op::Get(k, key) => {
                let (sa, drawn) = maps.get(*k, *key);
                (COp::Get(*k, *key, drawn), Obs::Addr(sa))
            }
            Op::Lookup(k, a) => {
                let o = resolve(a, &results);
                let r = match maps.lookup(*k, o) {
                    None => Obs::NotTyped,
                    Some(r) => Obs::Key(r),
                };
                (COp::Lookup(*k, o), r)
            }
            Op::Transport(s) => {
                let sa = resolve_sa(s, &results);
                (COp::Transport(sa), Obs::Transport(maps.to_transport(sa)))
            }
            Op::Classify(s) => {
                let sa = resolve_sa(s, &results);
                let (k, o, a) = hk::classify(sa);
                (COp::Classify(sa), Obs::Class(k, o, a))
            }
        };
        hk::set_cur(None);
        results.push(o.clone());
        out.push((c, o));
    }
    out
}

// ---------------------------------------------------------------- Coq terms
fn coq_kind(k: u8) -> &'static str {
    match k {
        0 => "C18.KMixed",
        1 => "C18.KRelay",
        2 => "C18.KCustom",
        _ => "C18.KScript",
    }
}

fn coq_sa(sa: &SocketAddr) -> String {
    match sa {
        SocketAddr::V4(a) => format!("(C18.SV4 {} {})", u32::from(*a.ip()), a.port()),
        SocketAddr::V6(a) => format!(
            "(C18.SV6 {} {} {} {})",
            coq_hex(&a.ip().octets()),
            a.port(),
            a.flowinfo(),
            a.scope_id()
        ),
    }
}

fn coq_op(c: &COp, o: &Obs, uniq: u64) -> String {
    match c {
        COp::Get(k, key, drawn) => {
            // candidates: the scripted generator's draws; for the real (random) generators
            // the host part of the address that came back.  One more candidate that no
            // other call of the case uses is appended: the oracle stream always holds a
            // fresh candidate, so a wrongly accepted collision is a disagreement AND a
            // monitor failure (the correct code never reaches the extra candidate).
            let mut cands: Vec<Vec<u8>> = if *k == 3 {
                drawn.iter().map(|d| d.to_vec()).collect()
            } else {
                match o {
                    Obs::Addr(SocketAddr::V6(sa)) => vec![sa.ip().octets()[8..].to_vec()],
                    _ => vec![],
                }
            };
            let mut extra = vec![0xfau8; if *k == 3 { 16 } else { 8 }];
            let n = extra.len();
            extra[n - 4..].copy_from_slice(&(uniq as u32).to_be_bytes());
            cands.push(extra);
            format!("(C18.OpGet {} {key} {})", coq_kind(*k), coq_list(cands.iter(), |c| coq_hex(c)))
        }
        COp::Lookup(k, a) => format!("(C18.OpLookup {} {})", coq_kind(*k), coq_hex(a)),
        COp::Transport(sa) => format!("(C18.OpTransport {})", coq_sa(sa)),
        COp::Classify(sa) => format!("(C18.OpClassify {})", coq_sa(sa)),
    }
}

fn coq_obs(o: &Obs) -> String {
    match o {
        Obs::Addr(sa) => format!("(C18.RAddr {})", coq_sa(sa)),
        Obs::NotTyped => "C18.RNotTyped".into(),
        Obs::Key(k) => format!("(C18.RKey {})", coq_opt(*k, |k| k.to_string())),
        Obs::Transport(t) => format!(
            "(C18.RTransport {})",
            coq_opt(t.as_ref(), |t| match t {
                hk::TAddr::Ip(sa) => format!("(C18.TIp {})", coq_sa(sa)),
                hk::TAddr::Relay(k) => format!("(C18.TRelay {k})"),
                hk::TAddr::Custom(k) => format!("(C18.TCustom {k})"),
            })
        ),
        Obs::Class(k, o, sa) => match k {
            0 => format!("(C18.RClass (C18.MMixed {}))", coq_hex(o)),
            1 => format!("(C18.RClass (C18.MRelay {}))", coq_hex(o)),
            2 => format!("(C18.RClass (C18.MCustom {}))", coq_hex(o)),
            _ => format!("(C18.RClass (C18.MIp {}))", coq_sa(sa)),
        },
    }
}

fn coq_dump(d: &[(u8, u64, [u8; 16])]) -> String {
    let mut d = d.to_vec();
    d.sort();
    coq_list(d.iter(), |(k, key, o)| format!("({k}, {key}, {})", coq_hex(o)))
}

fn run(raw: &str) -> (String, String) {
    if raw.trim() == "K" {
        let c = hk::consts();
        return (
            "C18.IConsts".into(),
            format!(
                "(C18.OConsts {} {} {} {} {} {} {})",
                c.0,
                coq_hex(&c.1),
                coq_hex(&c.2),
                coq_hex(&c.3),
                coq_hex(&c.4),
                c.5,
                coq_sa(&c.6)
            ),
        );
    }
    let rest = raw.trim().strip_prefix("T ").expect("case kind");
    let (script, rest) = rest.split_once(' ').unwrap_or((rest, ""));
    let script: Vec<[u8; 16]> = if script == "-" {
        vec![]
    } else {
        script.chars().map(|c| pool(c.to_digit(16).expect("pool index") as u64)).collect()
    };
    let threads: Vec<Vec<Op>> = rest
        .split('/')
        .map(|t| t.split_whitespace().map(op_parse).collect())
        .collect();
    hk::set_script(script);
    hk::take_lin();
    let maps = hk::Maps::new();
    // seed of the schedule shaker: derived from the case text (replay keeps it)
    let seed = raw.bytes().fold(0u64, |h, b| h.wrapping_mul(1099511628211) ^ b as u64);
    let per_thread: Vec<Vec<(COp, Obs)>> = if threads.len() == 1 {
        vec![exec_thread(&maps, 0, &threads[0], None)]
    } else {
        let barrier = std::sync::Barrier::new(threads.len());
        std::thread::scope(|s| {
            let hs: Vec<_> = threads
                .iter()
                .enumerate()
                .map(|(t, ops)| {
                    let (maps, barrier) = (&maps, &barrier);
                    s.spawn(move || {
                        barrier.wait();
                        exec_thread(maps, t as u32, ops, Some(seed ^ t as u64))
                    })
                })
                .collect();
            hs.into_iter().map(|h| h.join().expect("thread")).collect()
        })
    };
    // linearise: calls in the order they entered a critical section; calls that never
    // took a lock (classification, failed conversions) are state independent and are
    // placed right before the thread's next locking call.
    let lin = hk::take_lin();
    let mut next = vec![0usize; per_thread.len()];
    let mut order: Vec<(usize, usize)> = Vec::new();
    for (t, j) in lin {
        let (t, j) = (t as usize, j as usize);
        while next[t] <= j {
            order.push((t, next[t]));
            next[t] += 1;
        }
    }
    for (t, ops) in per_thread.iter().enumerate() {
        while next[t] < ops.len() {
            order.push((t, next[t]));
            next[t] += 1;
        }
    }
    let inp = coq_list(order.iter(), |(t, j)| {
        let (c, o) = &per_thread[*t][*j];
        format!("({t}, {})", coq_op(c, o, (*t * 1000 + *j) as u64))
    });
    let obs = coq_list(order.iter(), |(t, j)| coq_obs(&per_thread[*t][*j].1));
    let (fwd, rev) = maps.dump();
    (
        format!("(C18.IOps {inp})"),
        format!("(C18.OOps {obs} {} {})", coq_dump(&fwd), coq_dump(&rev)),
    )
}

fn main() {
    main_with_consts(generate, run, &[("C18_MAPPED_PORT", hk::consts().5 as i128)]);
}
