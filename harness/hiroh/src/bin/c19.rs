//! C19 — which socket / transport an outgoing datagram is handed to.
//!
//! raw case:
//!   `V <cfg> <src> <dst>`                 pure: ip::Config::is_valid_send_addr / is_valid_default_addr
//!   `B <cfg;cfg;...> | <customs> | <send> <send> ...`
//!                                         IpTransports::bind over loopback sockets +
//!                                         TransportsSender::poll_send for every send
//!   `O <cfgs> | <customs> | <relays> | <inbox> | <gets> | <osend> <osend> ...`
//!                                         the real outer `Sender` (the `noq::UdpSender`) over a bare
//!                                         `Socket`: real mapped-address maps filled by `gets`, real
//!                                         loopback sockets, relay senders / RemoteStateActor inboxes
//!                                         that are channels, recording custom senders; one real
//!                                         `poll_send` per osend.  `Q ...`: same, printed as `IOuter`
//!                                         (first osend only, hand-off only).
//! relays  = `-` | `<0 room|1 closed|2 full>,...`
//! inbox   = `-` | `<endpoint key>:<0 room|1 closed|2 full>,...`   (distinct keys)
//! gets    = `-` | `<e|r|c><key>,...`      map.get(key) calls made before the sends
//! osend   = `<closed 0|1>/<odst>/<osrc>`
//! odst    = `m<e|r|c><key>:<port>:<scope>`  the synthetic address of the key (if it was got, else
//!                                           treated as `u` with host part = key)
//!         | `u<e|r|c><host hex>:<port>:<scope>`  synthetic address of that subnet with that host part
//!         | `4:<hex>:<port>` | `6:<hex>:<port>:<scope>`
//! osrc    = `-` | `4:<hex>` | `6:<hex>` | `mc<key>` | `uc<host hex>`
//! cfg     = `<4|6>:<addr hex>:<prefix>:<scope>:<default 0|1>:<required 0|1>`
//! src     = `-` | `4:<hex>` | `6:<hex>`
//! dst     = `4:<hex>` | `6:<hex>:<scope>`
//! customs = `-` | `<id,id,..>:<behaviour 0 ok|1 err|2 pending>;...`
//! send    = `i/<src>/<dst>` | `c/<transport id>` | `r`
//! In `B` cases only loopback (127/8, ::1), unspecified and documentation (192.0.2.x,
//! 2001:db8::x — not bindable) addresses are bound, and destinations stay on loopback /
//! link-local scopes 1 (lo) and 77 (none): no datagram leaves the machine.
use std::net::{IpAddr, Ipv4Addr, Ipv6Addr, SocketAddr, SocketAddrV4, SocketAddrV6};

use hcommon::*;
use iroh::verif_hooks::c19 as hk;
use iroh_base::CustomAddr;

#[derive(Clone, Copy, Debug)]
struct Cfg {
    v6: bool,
    addr: u128,
    prefix: u8,
    scope: u32,
    default: bool,
    required: bool,
}

#[derive(Clone, Copy, Debug)]
enum Dst {
    V4(u32),
    V6(u128, u32),
}

#[derive(Clone, Debug)]
enum Send {
    Ip(Option<IpAddr>, Dst),
    Custom(u64),
    Relay,
}

// ---------------------------------------------------------------- raw format
fn cfg_raw(c: &Cfg) -> String {
    format!(
        "{}:{:x}:{}:{}:{}:{}",
        if c.v6 { 6 } else { 4 },
        c.addr,
        c.prefix,
        c.scope,
        c.default as u8,
        c.required as u8
    )
}

fn cfg_parse(s: &str) -> Cfg {
    let p: Vec<&str> = s.split(':').collect();
    Cfg {
        v6: p[0] == "6",
        addr: u128::from_str_radix(p[1], 16).unwrap(),
        prefix: p[2].parse().unwrap(),
        scope: p[3].parse().unwrap(),
        default: p[4] == "1",
        required: p[5] == "1",
    }
}

fn src_raw(s: &Option<IpAddr>) -> String {
    match s {
        None => "-".into(),
        Some(IpAddr::V4(a)) => format!("4:{:x}", u32::from(*a)),
        Some(IpAddr::V6(a)) => format!("6:{:x}", u128::from(*a)),
    }
}

fn src_parse(s: &str) -> Option<IpAddr> {
    if s == "-" {
        return None;
    }
    let (f, h) = s.split_once(':').unwrap();
    let n = u128::from_str_radix(h, 16).unwrap();
    Some(if f == "4" { IpAddr::V4(Ipv4Addr::from(n as u32)) } else { IpAddr::V6(Ipv6Addr::from(n)) })
}

fn dst_raw(d: &Dst) -> String {
    match d {
        Dst::V4(a) => format!("4:{a:x}"),
        Dst::V6(a, s) => format!("6:{a:x}:{s}"),
    }
}

fn dst_parse(s: &str) -> Dst {
    let p: Vec<&str> = s.split(':').collect();
    let n = u128::from_str_radix(p[1], 16).unwrap();
    if p[0] == "4" { Dst::V4(n as u32) } else { Dst::V6(n, p[2].parse().unwrap()) }
}

fn dst_sa(d: &Dst, port: u16) -> SocketAddr {
    match d {
        Dst::V4(a) => SocketAddr::V4(SocketAddrV4::new(Ipv4Addr::from(*a), port)),
        Dst::V6(a, s) => SocketAddr::V6(SocketAddrV6::new(Ipv6Addr::from(*a), port, 0, *s)),
    }
}

// ---------------------------------------------------------------- Coq terms
fn coq_sock(c: &Cfg, sid: usize) -> String {
    format!(
        "(C19.mkSock {sid} {} {} {} {} {})",
        coq_bool(c.v6),
        c.addr,
        c.prefix,
        c.scope,
        coq_bool(c.default)
    )
}

fn coq_src(s: &Option<IpAddr>) -> String {
    coq_opt(s.as_ref(), |s| match s {
        IpAddr::V4(a) => format!("(C19.IP4 {})", u32::from(*a)),
        IpAddr::V6(a) => format!("(C19.IP6 {})", u128::from(*a)),
    })
}

fn coq_dst(d: &Dst) -> String {
    match d {
        Dst::V4(a) => format!("(C19.D4 {a})"),
        Dst::V6(a, s) => format!("(C19.D6 {a} {s})"),
    }
}

// ---------------------------------------------------------------- generator
const V4_ADDRS: &[u32] = &[0, 0x7f000001, 0x0a010203, 0xc0a8014d, 0xffffffff, 0x7f800000, 0x80000000];
const V4_PREFIX: &[u8] = &[0, 1, 7, 8, 9, 16, 24, 31, 32];
const V6_PREFIX: &[u8] = &[0, 1, 9, 10, 11, 63, 64, 65, 127, 128];

fn v6_addrs(rng: &mut Rng) -> u128 {
    match rng.below(8) {
        0 => 0,
        1 => 1,
        2 => 0xfe80u128 << 112 | 1,
        3 => 0xfe80u128 << 112 | (rng.next_u64() as u128),
        4 => 0xfebfu128 << 112 | u64::MAX as u128,
        5 => 0x2001_0db8u128 << 96 | rng.below(4) as u128,
        6 => 0xfd15_070a_510b_0001u128 << 64 | rng.next_u64() as u128,
        _ => (rng.next_u64() as u128) << 64 | rng.next_u64() as u128,
    }
}

/// an address near `a` with respect to prefix length `p` in a `w`-bit family:
/// equal, or differing in bit p-1 / p / p+1 (counted from the top), or in the last bit
fn near(rng: &mut Rng, a: u128, p: u8, w: u8) -> u128 {
    let flip = |bit_from_top: i32| -> u128 {
        if bit_from_top < 0 || bit_from_top >= w as i32 {
            a
        } else {
            a ^ (1u128 << (w as i32 - 1 - bit_from_top))
        }
    };
    match rng.below(6) {
        0 => a,
        1 => flip(p as i32 - 2),
        2 => flip(p as i32 - 1),
        3 => flip(p as i32),
        4 => flip(p as i32 + 1),
        _ => a ^ 1,
    }
}

fn gen_valid(rng: &mut Rng) -> String {
    let v6 = rng.chance(1, 2);
    let (addr, prefix) = if v6 {
        (v6_addrs(rng), *rng.pick(V6_PREFIX))
    } else {
        (*rng.pick(V4_ADDRS) as u128, *rng.pick(V4_PREFIX))
    };
    let scope = *rng.pick(&[0u32, 0, 1, 3]);
    let c = Cfg { v6, addr, prefix, scope, default: rng.chance(1, 2), required: true };
    let w = if v6 { 128 } else { 32 };
    // destination: usually of the same family, near the network boundary or link-local
    let dst_v6 = if rng.chance(1, 8) { !v6 } else { v6 };
    let dst = if dst_v6 {
        let a = match rng.below(6) {
            0 => *rng.pick(&[
                0xfe80u128 << 112,
                (0xfe7fu128 << 112) | (u128::MAX >> 16),
                (0xfebfu128 << 112) | (u128::MAX >> 16),
                0xfec0u128 << 112,
                (0xfe80u128 << 112) | 0x1234,
            ]),
            1 => v6_addrs(rng),
            _ => {
                let base = if v6 { addr } else { v6_addrs(rng) };
                near(rng, base, prefix.min(128), 128)
            }
        };
        Dst::V6(a, *rng.pick(&[0u32, 1, 3, scope]))
    } else {
        let base = if v6 { *rng.pick(V4_ADDRS) } else { addr as u32 };
        Dst::V4(near(rng, base as u128, prefix.min(32), 32) as u32)
    };
    let src: Option<IpAddr> = match rng.below(8) {
        0..=3 => None,
        4 => Some(if v6 { IpAddr::V6(Ipv6Addr::from(addr)) } else { IpAddr::V4(Ipv4Addr::from(addr as u32)) }),
        5 => Some(if v6 {
            IpAddr::V6(Ipv6Addr::from(near(rng, addr, 128, 128)))
        } else {
            IpAddr::V4(Ipv4Addr::from(near(rng, addr, 32, w) as u32))
        }),
        6 => Some(if v6 { IpAddr::V4(Ipv4Addr::from(addr as u32)) } else { IpAddr::V6(Ipv6Addr::from(addr)) }),
        _ => Some(if rng.chance(1, 2) { IpAddr::V4(Ipv4Addr::UNSPECIFIED) } else { IpAddr::V6(Ipv6Addr::UNSPECIFIED) }),
    };
    format!("V {} {} {}", cfg_raw(&c), src_raw(&src), dst_raw(&dst))
}

fn lo4(rng: &mut Rng) -> u32 {
    // 127.a.b.c with few distinct values per byte: subnets overlap
    0x7f000000 | (rng.below(3) as u32) << 16 | (rng.below(2) as u32) << 8 | rng.below(3) as u32
}

fn gen_bind(rng: &mut Rng) -> String {
    let n4 = rng.below(5);
    let n6 = rng.below(4);
    let mut cfgs = Vec::new();
    // defaults: usually at most one per family
    let def4 = if n4 > 0 && rng.chance(2, 3) { Some(rng.below(n4)) } else { None };
    let def6 = if n6 > 0 && rng.chance(2, 3) { Some(rng.below(n6)) } else { None };
    let extra_defaults = rng.chance(1, 12);
    for i in 0..n4 {
        let addr = match rng.below(12) {
            0 | 1 => 0,
            2 if rng.chance(1, 3) => 0xc0000201, // 192.0.2.1: not bindable
            _ => lo4(rng),
        };
        cfgs.push(Cfg {
            v6: false,
            addr: addr as u128,
            prefix: *rng.pick(&[0u8, 8, 16, 24, 24, 31, 32]),
            scope: 0,
            default: def4 == Some(i) || (extra_defaults && rng.chance(1, 2)),
            required: addr != 0xc0000201 || rng.chance(1, 3),
        });
    }
    for i in 0..n6 {
        let addr: u128 = match rng.below(8) {
            0 | 1 | 2 => 0,
            3 if rng.chance(1, 3) => 0x2001_0db8u128 << 96 | 1, // not bindable
            _ => 1,
        };
        cfgs.push(Cfg {
            v6: true,
            addr,
            prefix: *rng.pick(&[0u8, 10, 64, 127, 128]),
            scope: *rng.pick(&[0u32, 0, 1, 77]),
            default: def6 == Some(i) || (extra_defaults && rng.chance(1, 2)),
            required: addr <= 1 || rng.chance(1, 3),
        });
    }
    // bind order: shuffle the families together
    for i in (1..cfgs.len()).rev() {
        let j = rng.below(i as u64 + 1) as usize;
        cfgs.swap(i, j);
    }
    let customs: Vec<(Vec<u64>, u8)> = (0..rng.below(4))
        .map(|_| {
            let ids: Vec<u64> = (0..3).filter(|_| rng.chance(1, 2)).collect();
            (ids, *rng.pick(&[0u8, 0, 1, 2, 2]))
        })
        .collect();
    let mut sends = Vec::new();
    for _ in 0..rng.range(4, 16) {
        let s = match rng.below(12) {
            0 => Send::Custom(rng.below(4)),
            1 => Send::Relay,
            2 | 3 => {
                // IPv6 destination
                let d = match rng.below(5) {
                    0 => Dst::V6(1, 0),
                    1 => Dst::V6(2, 0),
                    2 => Dst::V6(0xfe80u128 << 112 | 1, *rng.pick(&[1u32, 77])),
                    3 => Dst::V6(0xfebfu128 << 112 | 9, *rng.pick(&[0u32, 1, 77])),
                    _ => Dst::V6(1, *rng.pick(&[0u32, 1])),
                };
                let src = match rng.below(5) {
                    0 => Some(IpAddr::V6(Ipv6Addr::LOCALHOST)),
                    1 => Some(IpAddr::V6(Ipv6Addr::from(2u128))),
                    2 => Some(IpAddr::V4(Ipv4Addr::LOCALHOST)),
                    _ => None,
                };
                Send::Ip(src, d)
            }
            _ => {
                let d = Dst::V4(lo4(rng));
                let src = match rng.below(6) {
                    0 => Some(IpAddr::V4(Ipv4Addr::from(lo4(rng)))),
                    1 => {
                        // the address of one of the bound sockets
                        let v4: Vec<&Cfg> = cfgs.iter().filter(|c| !c.v6).collect();
                        if v4.is_empty() { None } else { Some(IpAddr::V4(Ipv4Addr::from(rng.pick(&v4).addr as u32))) }
                    }
                    2 if rng.chance(1, 2) => Some(IpAddr::V6(Ipv6Addr::LOCALHOST)),
                    _ => None,
                };
                Send::Ip(src, d)
            }
        };
        sends.push(s);
    }
    let c = cfgs.iter().map(cfg_raw).collect::<Vec<_>>().join(";");
    let cu = if customs.is_empty() {
        "-".to_string()
    } else {
        customs
            .iter()
            .map(|(ids, b)| format!("{}:{b}", ids.iter().map(|i| i.to_string()).collect::<Vec<_>>().join(",")))
            .collect::<Vec<_>>()
            .join(";")
    };
    let s = sends
        .iter()
        .map(|s| match s {
            Send::Ip(src, d) => format!("i/{}/{}", src_raw(src), dst_raw(d)),
            Send::Custom(id) => format!("c/{id}"),
            Send::Relay => "r".into(),
        })
        .collect::<Vec<_>>()
        .join(" ");
    format!("B {} | {cu} | {s}", if c.is_empty() { "-".into() } else { c })
}

fn generate(rng: &mut Rng, i: u64, _n: u64) -> String {
    match i % 6 {
        0 | 3 => gen_bind(rng),
        1 => gen_outer(rng),
        _ => gen_valid(rng),
    }
}


// ---------------------------------------------------------------- outer sender (O / Q cases)
const KINDS: [char; 3] = ['e', 'r', 'c'];

fn gen_outer(rng: &mut Rng) -> String {
    // sockets, customs: the `B` generator's (first two fields of its raw case)
    let b = gen_bind(rng);
    let parts: Vec<&str> = b[2..].split('|').map(|s| s.trim()).collect();
    let (cfgs_raw, customs_raw) = (parts[0].to_string(), parts[1].to_string());
    let cfgs: Vec<Cfg> = if cfgs_raw == "-" { vec![] } else { cfgs_raw.split(';').map(cfg_parse).collect() };
    let relays: Vec<u8> = (0..rng.below(3)).map(|_| *rng.pick(&[0u8, 0, 0, 1, 2])).collect();
    let mut inbox: Vec<(u64, u8)> = Vec::new();
    for k in 0..6u64 {
        if rng.chance(2, 3) {
            inbox.push((k, *rng.pick(&[0u8, 0, 0, 0, 1, 2])));
        }
    }
    // keys 0..5 are candidates for get; 6.. are never got
    let mut gets: Vec<(char, u64)> = Vec::new();
    for _ in 0..rng.below(10) {
        gets.push((*rng.pick(&KINDS), rng.below(6)));
    }
    let mut sends = Vec::new();
    for _ in 0..rng.range(3, 10) {
        let closed = rng.chance(1, 10);
        let port = *rng.pick(&[12345u16, 12345, 12345, 0, 7, 65535]);
        let scope = *rng.pick(&[0u32, 0, 0, 1, 77]);
        let dst = match rng.below(16) {
            0..=5 => {
                // the synthetic address of a key that (probably) was got
                let (k, key) = if !gets.is_empty() && rng.chance(4, 5) { *rng.pick(&gets) } else { (*rng.pick(&KINDS), rng.below(8)) };
                format!("m{k}{key}:{port}:{scope}")
            }
            6 | 7 => format!("u{}{:x}:{port}:{scope}", rng.pick(&KINDS), rng.next_u64()),
            8 => {
                // IPv4-mapped IPv6 loopback
                format!("6:{:x}:{port}:{scope}", 0xffff_0000_0000u128 | lo4(rng) as u128)
            }
            9 | 10 => {
                let a: u128 = match rng.below(5) {
                    0 => 1,
                    1 => 2,
                    2 => 0xfe80u128 << 112 | 1,
                    3 => 0xfebfu128 << 112 | 9,
                    _ => 0xfe80u128 << 112 | rng.below(3) as u128,
                };
                format!("6:{a:x}:{port}:{}", rng.pick(&[0u32, 1, 1, 77]))
            }
            11 => {
                // near the synthetic prefix but not in any of the three subnets
                let a: u128 = *rng.pick(&[
                    0xfd15_070a_510b_0002u128 << 64 | 5,
                    0xfd15_070a_510b_0004u128 << 64 | 5,
                    0xfd15_070a_510a_0001u128 << 64 | 5,
                    0xfc15_070a_510b_0000u128 << 64 | 5,
                ]);
                format!("6:{a:x}:{port}:0")
            }
            _ => format!("4:{:x}:{port}", lo4(rng)),
        };
        let src = match rng.below(10) {
            0 => format!("4:{:x}", lo4(rng)),
            1 => {
                let v4: Vec<&Cfg> = cfgs.iter().filter(|c| !c.v6).collect();
                if v4.is_empty() { "-".into() } else { format!("4:{:x}", rng.pick(&v4).addr as u32) }
            }
            2 => "6:1".into(),
            3 => {
                let cs: Vec<u64> = gets.iter().filter(|g| g.0 == 'c').map(|g| g.1).collect();
                if cs.is_empty() { format!("mc{}", rng.below(8)) } else { format!("mc{}", rng.pick(&cs)) }
            }
            4 if rng.chance(1, 2) => format!("uc{:x}", rng.next_u64()),
            _ => "-".into(),
        };
        sends.push(format!("{}/{dst}/{src}", closed as u8));
    }
    let kind = if rng.chance(1, 8) { 'Q' } else { 'O' };
    format!(
        "{kind} {cfgs_raw} | {customs_raw} | {} | {} | {} | {}",
        if relays.is_empty() { "-".into() } else { relays.iter().map(|r| r.to_string()).collect::<Vec<_>>().join(",") },
        if inbox.is_empty() { "-".into() } else { inbox.iter().map(|(k, b)| format!("{k}:{b}")).collect::<Vec<_>>().join(",") },
        if gets.is_empty() { "-".into() } else { gets.iter().map(|(k, n)| format!("{k}{n}")).collect::<Vec<_>>().join(",") },
        sends.join(" ")
    )
}

fn kind_no(c: char) -> u8 {
    match c { 'e' => 0, 'r' => 1, _ => 2 }
}

fn subnet_octets(kind: u8, host: u64) -> [u8; 16] {
    let mut o = [0u8; 16];
    o[..6].copy_from_slice(&[0xfd, 0x15, 0x07, 0x0a, 0x51, 0x0b]);
    o[6..8].copy_from_slice(match kind { 0 => &[0, 0], 1 => &[0, 1], _ => &[0, 3] });
    o[8..].copy_from_slice(&host.to_be_bytes());
    o
}

fn coq_sa(sa: &SocketAddr) -> String {
    match sa {
        SocketAddr::V4(a) => format!("(C18.SV4 {} {})", u32::from(*a.ip()), a.port()),
        SocketAddr::V6(a) => format!(
            "(C18.SV6 {} {} {} {})",
            coq_hex(&a.ip().octets()),
            a.port(),
            a.flowinfo(),
            a.scope_id()
        ),
    }
}

fn coq_srcip(s: &Option<IpAddr>) -> String {
    coq_opt(s.as_ref(), |s| match s {
        IpAddr::V4(a) => format!("(C19.S4 {})", u32::from(*a)),
        IpAddr::V6(a) => format!("(C19.S6 {})", coq_hex(&a.octets())),
    })
}

fn coq_dst_of_sa(sa: &SocketAddr) -> String {
    match sa {
        SocketAddr::V4(a) => format!("(C19.D4 {})", u32::from(*a.ip())),
        SocketAddr::V6(a) => format!("(C19.D6 {} {})", u128::from(*a.ip()), a.scope_id()),
    }
}

fn run_outer(rest: &str, rt: &tokio::runtime::Runtime, simple: bool) -> (String, String) {
    use hk::outer::{NOKEY, Outer, PathObs};
    let parts: Vec<&str> = rest.split('|').map(|s| s.trim()).collect();
    let cfgs: Vec<Cfg> = if parts[0] == "-" { vec![] } else { parts[0].split(';').map(cfg_parse).collect() };
    let customs: Vec<(Vec<u64>, u8)> = if parts[1] == "-" {
        vec![]
    } else {
        parts[1]
            .split(';')
            .map(|c| {
                let (ids, b) = c.split_once(':').unwrap();
                (
                    ids.split(',').filter(|s| !s.is_empty()).map(|s| s.parse().unwrap()).collect(),
                    b.parse().unwrap(),
                )
            })
            .collect()
    };
    let relays: Vec<u8> = if parts[2] == "-" { vec![] } else { parts[2].split(',').map(|s| s.parse().unwrap()).collect() };
    let inbox: Vec<(u64, u8)> = if parts[3] == "-" {
        vec![]
    } else {
        parts[3]
            .split(',')
            .map(|s| {
                let (k, b) = s.split_once(':').unwrap();
                (k.parse().unwrap(), b.parse().unwrap())
            })
            .collect()
    };
    let gets: Vec<(u8, u64)> = if parts[4] == "-" {
        vec![]
    } else {
        parts[4].split(',').map(|s| (kind_no(s.chars().next().unwrap()), s[1..].parse().unwrap())).collect()
    };
    let sends: Vec<&str> = parts[5].split_whitespace().collect();
    let flags: Vec<bool> = cfgs.iter().map(bindable).collect();
    let coq_rs = coq_list(cfgs.iter().enumerate(), |(i, c)| {
        format!("(C19.mkReq {} {} {})", coq_sock(c, i), coq_bool(c.required), coq_bool(flags[i]))
    });
    let coq_customs =
        coq_list(customs.iter(), |(ids, b)| format!("({}, {b})", coq_list(ids.iter(), |i| i.to_string())));
    let _guard = rt.enter();
    let mut seed = rest.bytes().fold(11u64, |h, b| h.wrapping_mul(1099511628211) ^ b as u64);
    for _attempt in 0..8 {
        let base = 30000 + (seed % 20000) as u16;
        seed = seed.wrapping_mul(6364136223846793005).wrapping_add(1442695040888963407);
        let hcfgs: Vec<hk::Cfg> = cfgs
            .iter()
            .enumerate()
            .map(|(i, c)| hk::Cfg {
                v6: c.v6,
                addr: c.addr,
                prefix: c.prefix,
                scope: c.scope,
                port: base + i as u16,
                is_required: c.required,
                is_default: c.default,
            })
            .collect();
        let sid = |port: u16| (port - base) as usize;
        let (mut outer, (l4, d4, l6, d6)) = match Outer::new(&hcfgs, &relays, &customs, &inbox) {
            Err((kind, msg)) => {
                if msg.contains("in use") {
                    continue;
                }
                let e = if kind == 1 { if msg.contains("IPv4") { 1 } else { 2 } } else { 3 };
                let coq_in = format!(
                    "(C19.IOut {coq_rs} {coq_customs} {} {} [] [])",
                    coq_list(relays.iter(), |r| r.to_string()),
                    coq_list(inbox.iter(), |(k, b)| format!("({k}, {b})")),
                );
                return (coq_in, format!("(C19.OBindErr {e})"));
            }
            Ok(x) => x,
        };
        // fill the real maps; the op list replays the draws the real generator made
        let mut got: std::collections::HashMap<(u8, u64), SocketAddr> = Default::default();
        let mut ops = Vec::new();
        for (kind, key) in &gets {
            let sa = outer.get(*kind, *key);
            let SocketAddr::V6(a) = sa else { panic!("mapped addresses are IPv6") };
            let o = a.ip().octets();
            got.insert((*kind, *key), sa);
            ops.push(format!(
                "(C18.OpGet {} {key} [{}])",
                ["C18.KMixed", "C18.KRelay", "C18.KCustom"][*kind as usize],
                coq_hex(&o[8..])
            ));
        }
        let mapped = |kind: u8, key: u64| -> Ipv6Addr {
            match got.get(&(kind, key)) {
                Some(SocketAddr::V6(a)) => *a.ip(),
                _ => Ipv6Addr::from(subnet_octets(kind, key)),
            }
        };
        let mut coq_sends = Vec::new();
        let mut coq_obs = Vec::new();
        let mut first: Option<(String, String)> = None;
        for s in &sends {
            let p: Vec<&str> = s.split('/').collect();
            let closed = p[0] == "1";
            let d: Vec<&str> = p[1].split(':').collect();
            let dest: SocketAddr = if let Some(r) = d[0].strip_prefix('m') {
                let kind = kind_no(r.chars().next().unwrap());
                let ip = mapped(kind, r[1..].parse().unwrap());
                SocketAddr::V6(SocketAddrV6::new(ip, d[1].parse().unwrap(), 0, d[2].parse().unwrap()))
            } else if let Some(r) = d[0].strip_prefix('u') {
                let kind = kind_no(r.chars().next().unwrap());
                let ip = Ipv6Addr::from(subnet_octets(kind, u64::from_str_radix(&r[1..], 16).unwrap()));
                SocketAddr::V6(SocketAddrV6::new(ip, d[1].parse().unwrap(), 0, d[2].parse().unwrap()))
            } else if d[0] == "4" {
                SocketAddr::V4(SocketAddrV4::new(
                    Ipv4Addr::from(u32::from_str_radix(d[1], 16).unwrap()),
                    d[2].parse().unwrap(),
                ))
            } else {
                SocketAddr::V6(SocketAddrV6::new(
                    Ipv6Addr::from(u128::from_str_radix(d[1], 16).unwrap()),
                    d[2].parse().unwrap(),
                    0,
                    d[3].parse().unwrap(),
                ))
            };
            let src: Option<IpAddr> = if let Some(k) = p[2].strip_prefix("mc") {
                Some(IpAddr::V6(mapped(2, k.parse().unwrap())))
            } else if let Some(h) = p[2].strip_prefix("uc") {
                Some(IpAddr::V6(Ipv6Addr::from(subnet_octets(2, u64::from_str_radix(h, 16).unwrap()))))
            } else {
                src_parse(p[2])
            };
            outer.set_closed(closed);
            let ob = outer.send(dest, src);
            // ---- what was observed, as model terms
            let res = match (ob.res, ob.not_connected) {
                (0, _) => 0,
                (1, true) => 1,
                (1, false) => 3,
                _ => 2,
            };
            // at most one hand-off per datagram
            let hand_offs = ob.remote_tried.len() + ob.paths.len();
            let (h, dv) = if hand_offs > 1 {
                ("(C19.HRemote 999999)".to_string(), "C19.DNone".to_string())
            } else if ob.res == 1 {
                ("C19.HFatal".to_string(), "C19.DNone".to_string())
            } else if let Some(k) = ob.remote_tried.first() {
                (format!("(C19.HRemote {})", if *k == NOKEY { 999999 } else { *k }),
                 format!("(C19.DRemote {})", coq_bool(ob.remote.contains(k))))
            } else if let Some(path) = ob.paths.first() {
                match path {
                    PathObs::Ip { remote, local } => (
                        format!("(C19.HPath (C19.PIp {} {}))", coq_dst_of_sa(remote), coq_src(local)),
                        match ob.chosen.first() {
                            Some((port, dflt)) => format!("(C19.DIp (C19.SendOn {} {}))", sid(*port), coq_bool(*dflt)),
                            None => "(C19.DIp C19.Blackhole)".into(),
                        },
                    ),
                    PathObs::Relay(k) => (
                        format!("(C19.HPath (C19.PRelay {}))", if *k == NOKEY { 999999 } else { *k }),
                        // the item that arrived names the same relay key
                        match ob.relay.first() {
                            Some((i, k2)) if k2 == k && ob.relay.len() == 1 => format!("(C19.DRelay (Some {i}))"),
                            Some(_) => "(C19.DRelay (Some 999999))".into(),
                            None => "(C19.DRelay None)".into(),
                        },
                    ),
                    PathObs::Custom { remote, local } => (
                        format!(
                            "(C19.HPath (C19.PCustom {} {}))",
                            if *remote == NOKEY { 999999 } else { *remote },
                            coq_opt(*local, |l| if l == NOKEY { "999999".into() } else { l.to_string() })
                        ),
                        // every polled custom sender was given exactly this remote / local
                        if ob.custom.iter().all(|(_, r, l)| r == remote && l == local) {
                            format!("(C19.DCustom {})", coq_list(ob.custom.iter(), |(i, _, _)| i.to_string()))
                        } else {
                            "(C19.DCustom [999999])".into()
                        },
                    ),
                }
            } else if !ob.chosen.is_empty() || !ob.custom.is_empty() || !ob.relay.is_empty() || !ob.remote.is_empty() {
                ("(C19.HRemote 999999)".to_string(), "C19.DNone".to_string())
            } else {
                ("C19.HDropped".to_string(), "C19.DNone".to_string())
            };
            if first.is_none() {
                first = Some((
                    format!("{} {ops} {} {}", coq_bool(closed), coq_sa(&dest), coq_srcip(&src), ops = coq_list(ops.iter(), |o| o.clone())),
                    h.clone(),
                ));
            }
            coq_sends.push(format!("({}, {}, {})", coq_bool(closed), coq_sa(&dest), coq_srcip(&src)));
            coq_obs.push(format!("({res}, {h}, {dv})"));
        }
        if simple {
            let (i, h) = first.expect("at least one send");
            return (format!("(C19.IOuter {i})"), format!("(C19.OOuter {h})"));
        }
        let coq_in = format!(
            "(C19.IOut {coq_rs} {coq_customs} {} {} {} {})",
            coq_list(relays.iter(), |r| r.to_string()),
            coq_list(inbox.iter(), |(k, b)| format!("({k}, {b})")),
            coq_list(ops.iter(), |o| o.clone()),
            coq_list(coq_sends.iter(), |o| o.clone()),
        );
        return (
            coq_in,
            format!(
                "(C19.OOut {} {} {} {} {})",
                coq_list(l4.iter(), |p| sid(*p).to_string()),
                coq_opt(d4, |i| i.to_string()),
                coq_list(l6.iter(), |p| sid(*p).to_string()),
                coq_opt(d6, |i| i.to_string()),
                coq_list(coq_obs.iter(), |o| o.clone()),
            ),
        );
    }
    ("(C19.IOut [] [] [] [] [] [])".into(), "(C19.OBindErr 98)".into())
}

// ---------------------------------------------------------------- execution
fn bindable(c: &Cfg) -> bool {
    let sa = if c.v6 {
        SocketAddr::V6(SocketAddrV6::new(Ipv6Addr::from(c.addr), 0, 0, c.scope))
    } else {
        SocketAddr::V4(SocketAddrV4::new(Ipv4Addr::from(c.addr as u32), 0))
    };
    std::net::UdpSocket::bind(sa).is_ok()
}

fn run_valid(rest: &str) -> (String, String) {
    let t: Vec<&str> = rest.split_whitespace().collect();
    let c = cfg_parse(t[0]);
    let src = src_parse(t[1]);
    let d = dst_parse(t[2]);
    let hc = hk::Cfg {
        v6: c.v6,
        addr: c.addr,
        prefix: c.prefix,
        scope: c.scope,
        port: 4433,
        is_required: c.required,
        is_default: c.default,
    };
    let (vs, vd, pl) = hk::valid(&hc, src, dst_sa(&d, 7)).expect("valid prefix");
    (
        format!("(C19.IValid {} {} {})", coq_sock(&c, 0), coq_src(&src), coq_dst(&d)),
        format!("(C19.OValid {} {} {pl})", coq_bool(vs), coq_bool(vd)),
    )
}

fn run_bind(rest: &str, rt: &tokio::runtime::Runtime) -> (String, String) {
    let parts: Vec<&str> = rest.split('|').map(|s| s.trim()).collect();
    let cfgs: Vec<Cfg> = if parts[0] == "-" { vec![] } else { parts[0].split(';').map(cfg_parse).collect() };
    let customs: Vec<(Vec<u64>, u8)> = if parts[1] == "-" {
        vec![]
    } else {
        parts[1]
            .split(';')
            .map(|c| {
                let (ids, b) = c.split_once(':').unwrap();
                (
                    ids.split(',').filter(|s| !s.is_empty()).map(|s| s.parse().unwrap()).collect(),
                    b.parse().unwrap(),
                )
            })
            .collect()
    };
    let sends: Vec<Send> = parts[2]
        .split_whitespace()
        .map(|s| {
            if s == "r" {
                Send::Relay
            } else if let Some(id) = s.strip_prefix("c/") {
                Send::Custom(id.parse().unwrap())
            } else {
                let p: Vec<&str> = s.split('/').collect();
                Send::Ip(src_parse(p[1]), dst_parse(p[2]))
            }
        })
        .collect();
    let flags: Vec<bool> = cfgs.iter().map(bindable).collect();
    let coq_in = format!(
        "(C19.ISend {} {} {})",
        coq_list(cfgs.iter().enumerate(), |(i, c)| format!(
            "(C19.mkReq {} {} {})",
            coq_sock(c, i),
            coq_bool(c.required),
            coq_bool(flags[i])
        )),
        coq_list(customs.iter(), |(ids, b)| format!("({}, {b})", coq_list(ids.iter(), |i| i.to_string()))),
        coq_list(sends.iter(), |s| match s {
            Send::Ip(src, d) => format!("(C19.SIp {} {})", coq_src(src), coq_dst(d)),
            Send::Custom(id) => format!("(C19.SCustom {id})"),
            Send::Relay => "C19.SRelay".into(),
        })
    );
    let _guard = rt.enter();
    // every socket gets its own port: the port names the socket
    let mut seed = rest.bytes().fold(7u64, |h, b| h.wrapping_mul(1099511628211) ^ b as u64);
    for _attempt in 0..8 {
        let base = 10000 + (seed % 20000) as u16;
        seed = seed.wrapping_mul(6364136223846793005).wrapping_add(1442695040888963407);
        let hcfgs: Vec<hk::Cfg> = cfgs
            .iter()
            .enumerate()
            .map(|(i, c)| hk::Cfg {
                v6: c.v6,
                addr: c.addr,
                prefix: c.prefix,
                scope: c.scope,
                port: base + i as u16,
                is_required: c.required,
                is_default: c.default,
            })
            .collect();
        let sid = |port: u16| (port - base) as usize;
        match hk::Sender::new(&hcfgs, &customs) {
            Err((kind, msg)) => {
                if msg.contains("in use") {
                    continue; // somebody else holds one of the ports: other base
                }
                let e = if kind == 1 {
                    if msg.contains("IPv4") { 1 } else { 2 }
                } else {
                    3
                };
                return (coq_in, format!("(C19.OBindErr {e})"));
            }
            Ok((mut sender, (l4, d4, l6, d6))) => {
                let results: Vec<String> = sends.iter().map(|s| match s {
                    Send::Ip(src, d) => {
                        let (chosen, _code) = sender.send_ip(dst_sa(d, 9), *src);
                        match chosen {
                            Some((port, dflt)) => {
                                format!("(C19.RIp (C19.SendOn {} {}))", sid(port), coq_bool(dflt))
                            }
                            None => "(C19.RIp C19.Blackhole)".into(),
                        }
                    }
                    Send::Custom(id) => {
                        let remote = CustomAddr::from_parts(*id, &[1, 2, 3]);
                        let local = CustomAddr::from_parts(*id, &[9]);
                        let (log, code) = sender.send_custom(remote.clone(), Some(local.clone()));
                        // handed on with exactly the addresses given
                        assert!(log.iter().all(|(_, d, s)| *d == remote && s.as_ref() == Some(&local)));
                        format!(
                            "(C19.RCustom {} {code})",
                            coq_list(log.iter(), |(i, _, _)| i.to_string())
                        )
                    }
                    Send::Relay => format!("(C19.RRelay {})", sender.send_relay(1)),
                }).collect();
                let rs = coq_list(results.iter(), |r| r.clone());
                return (
                    coq_in,
                    format!(
                        "(C19.OSent {} {} {} {} {rs})",
                        coq_list(l4.iter(), |p| sid(*p).to_string()),
                        coq_opt(d4, |i| i.to_string()),
                        coq_list(l6.iter(), |p| sid(*p).to_string()),
                        coq_opt(d6, |i| i.to_string()),
                    ),
                );
            }
        }
    }
    (coq_in, "(C19.OBindErr 98)".into())
}

fn main() {
    let rt = tokio::runtime::Builder::new_current_thread().enable_all().build().unwrap();
    main_with(generate, |raw| {
        let raw = raw.trim();
        if let Some(rest) = raw.strip_prefix("V ") {
            run_valid(rest)
        } else if let Some(rest) = raw.strip_prefix("O ") {
            run_outer(rest, &rt, false)
        } else if let Some(rest) = raw.strip_prefix("Q ") {
            run_outer(rest, &rt, true)
        } else {
            run_bind(raw.strip_prefix("B ").expect("case kind"), &rt)
        }
    });
}
