//! C22 — address resolution of a remote (RemotePathState + State::handle_msg_resolve_remote /
//! trigger_address_lookup / handle_address_lookup_item).
//!
//! raw case: space separated events (`-` = none)
//!   R:<a>,<a>..   ResolveRemote with these address ids (request ids are 0,1,2.. in order)
//!   I:<a>,<a>..   lookup item with these addresses        J:<a>,..  item for another endpoint
//!   E0 / E1 / E3  lookup ends: stream exhausted / NoServiceConfigured / NoResults(with an error)
//!   O<a> / O<a>s  a path to <a> opened (s: and it becomes the selected path)
//!   A<a>          the path to <a> was abandoned           C  last connection closed
//! address kind by id % 8: 7 relay, 6 custom, 5 IPv6, else IPv4.
//! One millisecond of (paused) tokio time passes before every event: event k happens at k ms.
use hcommon::*;
use iroh::verif_hooks::c22 as hook;

#[derive(Clone, Debug)]
enum Ev {
    Resolve(Vec<u64>),
    Item(Vec<u64>, bool),
    End(u64),
    Open(u64, bool),
    Abandon(u64),
    Closed,
}

fn ids(v: &[u64]) -> String {
    v.iter().map(|x| x.to_string()).collect::<Vec<_>>().join(",")
}

fn raw_of(evs: &[Ev]) -> String {
    if evs.is_empty() {
        return "-".into();
    }
    evs.iter()
        .map(|e| match e {
            Ev::Resolve(a) => format!("R:{}", ids(a)),
            Ev::Item(a, false) => format!("I:{}", ids(a)),
            Ev::Item(a, true) => format!("J:{}", ids(a)),
            Ev::End(h) => format!("E{h}"),
            Ev::Open(a, s) => format!("O{a}{}", if *s { "s" } else { "" }),
            Ev::Abandon(a) => format!("A{a}"),
            Ev::Closed => "C".into(),
        })
        .collect::<Vec<_>>()
        .join(" ")
}

fn parse_ids(s: &str) -> Vec<u64> {
    s.split(',').filter(|x| !x.is_empty()).map(|x| x.parse().expect("id")).collect()
}

fn parse(raw: &str) -> Vec<Ev> {
    if raw.trim() == "-" {
        return vec![];
    }
    raw.split_whitespace()
        .map(|t| {
            if let Some(r) = t.strip_prefix("R:") {
                Ev::Resolve(parse_ids(r))
            } else if let Some(r) = t.strip_prefix("I:") {
                Ev::Item(parse_ids(r), false)
            } else if let Some(r) = t.strip_prefix("J:") {
                Ev::Item(parse_ids(r), true)
            } else if let Some(r) = t.strip_prefix('E') {
                Ev::End(r.parse().expect("end kind"))
            } else if let Some(r) = t.strip_prefix('O') {
                match r.strip_suffix('s') {
                    Some(a) => Ev::Open(a.parse().expect("id"), true),
                    None => Ev::Open(r.parse().expect("id"), false),
                }
            } else if let Some(r) = t.strip_prefix('A') {
                Ev::Abandon(r.parse().expect("id"))
            } else if t == "C" {
                Ev::Closed
            } else {
                panic!("bad event {t}")
            }
        })
        .collect()
}

/// address pool of a case: `n` ids starting at `base`, non-relay unless `relays`
fn pool(rng: &mut Rng, n: usize, relays: bool) -> Vec<u64> {
    let mut v = Vec::new();
    let mut id = rng.below(50) * 8;
    while v.len() < n {
        let is_relay = id % 8 == 7;
        if !is_relay || (relays && rng.chance(1, 2)) {
            v.push(id);
        }
        id += 1;
    }
    v
}

fn some_of(rng: &mut Rng, pool: &[u64], max: u64) -> Vec<u64> {
    let k = rng.range(0, max);
    (0..k).map(|_| *rng.pick(pool)).collect()
}

fn generate(rng: &mut Rng, _i: u64, _n: u64) -> String {
    let mut evs = Vec::new();
    let mode = rng.below(10);
    match mode {
        0 | 1 | 2 => {
            // few addresses: the resolve / lookup protocol
            let p = pool(rng, 4, true);
            let n = rng.range(0, 25);
            for _ in 0..n {
                evs.push(match rng.below(12) {
                    0 | 1 | 2 => Ev::Resolve(if rng.chance(1, 2) { vec![] } else { some_of(rng, &p, 2) }),
                    3 | 4 => Ev::Item(some_of(rng, &p, 2), rng.chance(1, 6)),
                    5 | 6 | 7 => Ev::End(*rng.pick(&[0, 0, 1, 3])),
                    8 => Ev::Open(*rng.pick(&p), rng.chance(1, 2)),
                    9 => Ev::Abandon(*rng.pick(&p)),
                    10 => Ev::Closed,
                    _ => Ev::Resolve(vec![]),
                });
            }
        }
        3 | 4 | 5 => {
            // many addresses: pruning inside insert_multiple / insert_open_path
            let np = rng.range(28, 45) as usize;
            let rel = rng.chance(1, 3);
            let p = pool(rng, np, rel);
            let n = rng.range(20, 60);
            let mut fresh = p.clone();
            for _ in 0..n {
                evs.push(match rng.below(12) {
                    0 | 1 => {
                        let k = rng.range(0, 12).min(fresh.len() as u64) as usize;
                        Ev::Resolve(fresh.drain(..k).collect())
                    }
                    2 => Ev::Item(some_of(rng, &p, 8), rng.chance(1, 8)),
                    3 => Ev::End(*rng.pick(&[0, 1, 3])),
                    4 | 5 | 6 => Ev::Open(*rng.pick(&p), rng.chance(1, 3)),
                    7 | 8 | 9 | 10 => Ev::Abandon(*rng.pick(&p)),
                    _ => Ev::Closed,
                });
            }
        }
        6 | 7 => {
            // drive towards the pruning classes: x opened, y more known, all abandoned, then requests
            let x = *rng.pick(&[1u64, 5, 9, 10, 11, 15, 20, 21, 30, 31]);
            let y = *rng.pick(&[0u64, 9, 10, 19, 20, 21, 25, 30]);
            let p = pool(rng, (x + y) as usize, false);
            let sel = rng.chance(2, 3);
            for (j, a) in p.iter().take(x as usize).enumerate() {
                evs.push(Ev::Open(*a, sel && j == 0));
            }
            let rest: Vec<u64> = p[x as usize..].to_vec();
            for ch in rest.chunks(13) {
                evs.push(if rng.chance(1, 2) { Ev::Resolve(ch.to_vec()) } else { Ev::Item(ch.to_vec(), false) });
            }
            let mut order = p.clone();
            if rng.chance(1, 2) {
                order.reverse();
            }
            let skip = if rng.chance(1, 3) { rng.range(1, 3) as usize } else { 0 };
            for a in order.iter().skip(skip) {
                evs.push(Ev::Abandon(*a));
            }
            for _ in 0..rng.range(1, 4) {
                evs.push(match rng.below(6) {
                    0 | 1 | 2 => Ev::Resolve(vec![]),
                    3 => Ev::End(*rng.pick(&[0, 1, 3])),
                    4 => Ev::Closed,
                    _ => Ev::Open(*rng.pick(&p), false),
                });
            }
            evs.push(Ev::Resolve(vec![]));
        }
        _ => {
            // only resolves and lookup results (no connection): the two regression tests' territory
            let p = pool(rng, 3, true);
            let n = rng.range(1, 14);
            for _ in 0..n {
                evs.push(match rng.below(6) {
                    0 | 1 => Ev::Resolve(vec![]),
                    2 => Ev::Resolve(some_of(rng, &p, 2)),
                    3 => Ev::Item(some_of(rng, &p, 1), rng.chance(1, 4)),
                    _ => Ev::End(*rng.pick(&[0, 1, 3])),
                });
            }
        }
    }
    raw_of(&evs)
}

fn coq_addrs(v: &[u64]) -> String {
    coq_list(v.iter(), |a| format!("({a}, {})", coq_bool(hook::is_relay(*a))))
}

fn coq_ev(e: &Ev, req: u64) -> String {
    match e {
        Ev::Resolve(a) => format!("C22.Resolve {req} {}", coq_addrs(a)),
        Ev::Item(a, false) => format!("C22.LookupItem {}", coq_addrs(a)),
        Ev::Item(_, true) => "C22.LookupItemOther".to_string(),
        Ev::End(h) => format!("C22.LookupEnd {h}"),
        Ev::Open(a, s) => format!("C22.OpenPath {a} {} {}", coq_bool(hook::is_relay(*a)), coq_bool(*s)),
        Ev::Abandon(a) => format!("C22.Abandon {a}"),
        Ev::Closed => "C22.ConnClosed".to_string(),
    }
}

fn coq_obs(o: &hook::Obs) -> String {
    format!(
        "(C22.mkObs {} {} {} {} {})",
        coq_list(o.replies.iter(), |(r, c)| format!("({r}, {c})")),
        coq_list(o.paths.iter(), |(a, c, t)| format!("({a}, {c}, {t})")),
        o.pending,
        coq_bool(o.lookup_running),
        coq_opt(o.selected, |a| a.to_string())
    )
}

fn run(raw: &str) -> (String, String) {
    let evs = parse(raw);
    let rt = tokio::runtime::Builder::new_current_thread()
        .enable_time()
        .start_paused(true)
        .build()
        .expect("runtime");
    let r = catch(|| {
        rt.block_on(async {
            let mut h = hook::Harness::new();
            let mut ins = Vec::new();
            let mut outs = Vec::new();
            let mut req = 0u64;
            for e in &evs {
                tokio::time::advance(std::time::Duration::from_millis(1)).await;
                let order = h.order();
                ins.push(format!("({}, {})", coq_list(order.iter(), |x| x.to_string()), coq_ev(e, req)));
                match e {
                    Ev::Resolve(a) => {
                        h.resolve(req, a);
                        req += 1;
                    }
                    Ev::Item(a, wrong) => {
                        h.lookup_item(a, *wrong);
                    }
                    Ev::End(how) => {
                        h.lookup_end(*how);
                    }
                    Ev::Open(a, s) => h.open_path(*a, *s),
                    Ev::Abandon(a) => h.abandon_path(*a),
                    Ev::Closed => h.last_connection_closed(),
                }
                outs.push(coq_obs(&h.observe()));
            }
            (ins, outs)
        })
    });
    match r {
        Caught::Value((ins, outs)) => (format!("[{}]", ins.join("; ")), format!("(Ok [{}])", outs.join("; "))),
        Caught::Panicked(_) => {
            let mut req = 0u64;
            let ins: Vec<String> = evs
                .iter()
                .map(|e| {
                    let s = format!("([], {})", coq_ev(e, req));
                    if matches!(e, Ev::Resolve(_)) {
                        req += 1;
                    }
                    s
                })
                .collect();
            (format!("[{}]", ins.join("; ")), "Panic".to_string())
        }
    }
}

fn main() {
    main_with(generate, run);
}
