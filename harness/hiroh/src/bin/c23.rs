//! C23 — prune_non_relay_paths (iroh/src/socket/remote_map/remote_state/path_state.rs).
//!
//! raw case: space separated paths `id:kind:status:t` in insertion order
//!   kind   0 IPv4, 1 relay, 2 custom, 3 IPv6
//!   status 0 open, 1 inactive (closed at base + t ns), 2 unusable, 3 unknown
//! (`-` = no paths).  The Coq input lists the paths in the hash map's iteration
//! order as observed right before pruning; the output is the sorted list of
//! surviving ids.
use hcommon::*;
use iroh::verif_hooks::c23 as hook;

type Entry = hook::Entry;

fn shuffle<T>(rng: &mut Rng, v: &mut [T]) {
    for i in (1..v.len()).rev() {
        let j = rng.below(i as u64 + 1) as usize;
        v.swap(i, j);
    }
}

/// count near a boundary `b`
fn near(rng: &mut Rng, b: u64) -> u64 {
    (b + rng.range(0, 2)).saturating_sub(1)
}

fn generate(rng: &mut Rng, i: u64, _n: u64) -> String {
    let (maxp, maxi) = hook::consts();
    let (maxp, maxi) = (maxp as u64, maxi as u64);
    // status-count vector (open, unknown, unusable, inactive, relay)
    let (mut o, mut u, mut f, mut k, mut r);
    match rng.below(12) {
        0 => {
            // small sets, below the threshold
            o = rng.below(8); u = rng.below(8); f = rng.below(8); k = rng.below(8); r = rng.below(4);
        }
        1 => {
            // every path failed, around the threshold and above
            o = 0; u = 0; k = 0; r = 0;
            f = if rng.chance(1, 2) { near(rng, maxp) } else { rng.range(maxp, 2 * maxp) };
        }
        2 => {
            // every non-relay path failed, some relay paths
            o = 0; u = 0; k = 0; r = rng.range(1, 5);
            f = if rng.chance(1, 2) { near(rng, maxp) } else { rng.range(maxp, 2 * maxp - 5) };
        }
        3 => {
            // only failed + inactive (nothing that must be kept)
            o = 0; u = 0; r = if rng.chance(1, 4) { rng.range(1, 3) } else { 0 };
            k = *rng.pick(&[1, maxi - 1, maxi, maxi + 1, 2 * maxi - 1, 2 * maxi, 2 * maxi + 1, 3 * maxi]);
            f = if rng.chance(1, 2) { near(rng, maxp.saturating_sub(k)) } else { rng.range(0, maxp) };
        }
        4 | 5 => {
            // inactive count at its boundaries, total non-relay at its boundary
            k = *rng.pick(&[0, 1, maxi - 1, maxi, maxi + 1, 2 * maxi - 1, 2 * maxi, 2 * maxi + 1]);
            f = rng.below(6);
            r = rng.below(4);
            let rest = near(rng, maxp).saturating_sub(k + f);
            o = rng.range(0, rest);
            u = rest - o;
        }
        6 => {
            // relay paths make up the total: len >= MAX but non-relay < MAX
            r = rng.range(1, 12);
            let nr = near(rng, maxp - 1).min(2 * maxp - r);
            k = rng.range(0, nr.min(2 * maxi + 2)); f = rng.range(0, nr - k);
            o = rng.range(0, nr - k - f); u = nr - k - f - o;
        }
        _ => {
            let total = if rng.chance(1, 3) { rng.range(0, 2 * maxp) } else { rng.range(maxp - 2, 2 * maxp) };
            let mut left = total;
            k = rng.range(0, left.min(3 * maxi)); left -= k;
            f = rng.range(0, left); left -= f;
            r = rng.range(0, left.min(6)); left -= r;
            o = rng.range(0, left); u = left - o;
        }
    }
    // keep the total at 2*MAX (60)
    while o + u + f + k + r > 2 * maxp {
        if u > 0 { u -= 1 } else if o > 0 { o -= 1 } else if f > 0 { f -= 1 } else if k > 0 { k -= 1 } else { r -= 1 }
    }
    let total = (o + u + f + k + r) as usize;
    // distinct ids
    let mut ids: Vec<u64> = Vec::new();
    let space = if i % 2 == 0 { 100 } else { 100_000 };
    while ids.len() < total {
        let id = rng.below(space);
        if !ids.contains(&id) {
            ids.push(id);
        }
    }
    // close times: distinct / few values (ties) / all equal
    let tmode = rng.below(4);
    let mut es: Vec<Entry> = Vec::new();
    let mut it = ids.into_iter();
    let nonrelay_kind = |rng: &mut Rng| *rng.pick(&[0u8, 0, 0, 2, 3]);
    for _ in 0..o { let kd = if rng.chance(1, 10) { 1 } else { nonrelay_kind(rng) }; es.push((it.next().unwrap(), kd, 0, 0)); }
    for _ in 0..u { es.push((it.next().unwrap(), nonrelay_kind(rng), 3, 0)); }
    for _ in 0..f { es.push((it.next().unwrap(), nonrelay_kind(rng), 2, 0)); }
    for j in 0..k {
        let t = match tmode {
            0 => 1000 * (j + 1),
            1 => rng.below(4) * 1000,
            2 => 5000,
            _ => rng.below(1_000_000_000),
        };
        es.push((it.next().unwrap(), nonrelay_kind(rng), 1, t));
    }
    for _ in 0..r {
        // relay paths of every status (an unusable / inactive relay path is never pruned)
        let st = *rng.pick(&[0u8, 3, 3, 2, 1]);
        let t = if st == 1 { rng.below(10) * 1000 } else { 0 };
        es.push((it.next().unwrap(), 1, st, t));
    }
    // a few open paths counted under `o` may be relay paths; that only lowers the non-relay count
    shuffle(rng, &mut es);
    raw_of(&es)
}

fn raw_of(es: &[Entry]) -> String {
    if es.is_empty() {
        return "-".into();
    }
    es.iter().map(|e| format!("{}:{}:{}:{}", e.0, e.1, e.2, e.3)).collect::<Vec<_>>().join(" ")
}

fn parse(raw: &str) -> Vec<Entry> {
    if raw.trim() == "-" {
        return vec![];
    }
    raw.split_whitespace()
        .map(|t| {
            let p: Vec<u64> = t.split(':').map(|x| x.parse().expect("number")).collect();
            (p[0], p[1] as u8, p[2] as u8, p[3])
        })
        .collect()
}

fn coq_path(e: &Entry) -> String {
    let st = match e.2 {
        0 => "C23.Open".to_string(),
        1 => format!("(C23.Inactive {})", e.3),
        2 => "C23.Unusable".to_string(),
        _ => "C23.Unknown".to_string(),
    };
    format!("(C23.mkPath {} {} {})", e.0, coq_bool(e.1 == 1), st)
}

fn run(raw: &str) -> (String, String) {
    let es = parse(raw);
    let r = catch(|| Ok::<_, u64>(hook::prune(&es)));
    match &r {
        Caught::Value(Ok((before, after))) => {
            let mut after = after.clone();
            after.sort();
            (coq_list(before.iter(), coq_path), format!("(Ok {})", coq_list(after.iter(), |x| x.to_string())))
        }
        _ => (coq_list(es.iter(), coq_path), "Panic".to_string()),
    }
}

fn main() {
    let (maxp, maxi) = hook::consts();
    main_with_consts(
        generate,
        run,
        &[
            ("C23_MAX_NON_RELAY_PATHS", maxp as i128),
            ("C23_MAX_INACTIVE_NON_RELAY_PATHS", maxi as i128),
        ],
    );
}
