//! C24 — BiasedRttPathSelector::select.
//! raw case: `<cur> <path>*` with cur = `-` | `k:id`, path = `k:id:<rtt ns>` | `k:id:-` (stats unreadable);
//! kind k: 0 IPv4, 1 IPv6, 2 relay, >= 3 custom transport.
use std::time::Duration;

use hcommon::*;
use iroh::verif_hooks::c24::{AddrSpec, consts, select_default};

const MS: u128 = 1_000_000;
const DUR_MAX: u128 = (u64::MAX as u128) * 1_000_000_000 + 999_999_999;

fn gen_rtt(rng: &mut Rng) -> u128 {
    // boundaries around the two constants (3 ms, 5 ms) and their sum/difference
    const BASE: &[u128] = &[
        0, 1, MS, 2 * MS, 3 * MS, 5 * MS, 8 * MS, 10 * MS, 13 * MS, 15 * MS, 18 * MS, 20 * MS, 1000 * MS,
    ];
    match rng.below(40) {
        0 => DUR_MAX,
        1 => DUR_MAX - rng.below(10 * MS as u64) as u128,
        2..=5 => rng.below(30 * MS as u64) as u128,
        _ => {
            let b = *rng.pick(BASE);
            match rng.below(4) {
                0 => b.saturating_sub(1),
                1 => b + 1,
                _ => b,
            }
        }
    }
}

fn gen_addr(rng: &mut Rng) -> AddrSpec {
    let kind = match rng.below(10) {
        0..=3 => 0,
        4..=6 => 1,
        7..=8 => 2,
        _ => 3 + rng.below(2),
    };
    (kind, rng.range(1, 2) as u16)
}

fn generate(rng: &mut Rng, i: u64, _n: u64) -> String {
    let n = if i < 4 { i } else { rng.range(0, 8) };
    let mut paths: Vec<(AddrSpec, Option<u128>)> = Vec::new();
    for _ in 0..n {
        let a = if !paths.is_empty() && rng.chance(1, 4) {
            rng.pick(&paths).0 // duplicate (same address on another connection)
        } else {
            gen_addr(rng)
        };
        let rtt = if rng.chance(1, 6) { None } else { Some(gen_rtt(rng)) };
        paths.push((a, rtt));
    }
    let cur = match rng.below(8) {
        0 => None,
        1 => Some(gen_addr(rng)),
        _ if !paths.is_empty() => Some(rng.pick(&paths).0),
        _ => None,
    };
    let mut s = cur.map_or("-".to_string(), |(k, id)| format!("{k}:{id}"));
    for ((k, id), rtt) in paths {
        s.push_str(&format!(" {k}:{id}:{}", rtt.map_or("-".into(), |r| r.to_string())));
    }
    s
}

fn coq_addr((k, id): AddrSpec) -> String {
    format!("(C24.mkAddr {k} {id})")
}

fn dur(ns: u128) -> Duration {
    Duration::new((ns / 1_000_000_000) as u64, (ns % 1_000_000_000) as u32)
}

fn run(raw: &str) -> (String, String) {
    let t: Vec<&str> = raw.split_whitespace().collect();
    let parse_addr = |k: &str, id: &str| -> AddrSpec { (k.parse().unwrap(), id.parse().unwrap()) };
    let cur: Option<AddrSpec> = if t[0] == "-" {
        None
    } else {
        let (k, id) = t[0].split_once(':').unwrap();
        Some(parse_addr(k, id))
    };
    let paths: Vec<(AddrSpec, Option<u128>)> = t[1..]
        .iter()
        .map(|p| {
            let f: Vec<&str> = p.split(':').collect();
            let rtt = if f[2] == "-" { None } else { Some(f[2].parse::<u128>().unwrap()) };
            (parse_addr(f[0], f[1]), rtt)
        })
        .collect();
    let coq_in = format!(
        "(C24.mkIn {} {})",
        coq_opt(cur, coq_addr),
        coq_list(paths.iter(), |(a, r)| format!(
            "({}, {})",
            coq_addr(*a),
            coq_opt(*r, |r| format!("{r}%N"))
        ))
    );
    let real: Vec<(AddrSpec, Option<Duration>)> = paths.iter().map(|(a, r)| (*a, r.map(dur))).collect();
    let r = catch(|| Ok::<_, u64>(select_default(cur, &real)));
    let out = coq_res(&r, |sel| coq_opt(*sel, coq_addr));
    (coq_in, out)
}

fn main() {
    let (adv, min) = consts();
    main_with_consts(
        generate,
        run,
        &[("C24_IPV6_RTT_ADVANTAGE", adv as i128), ("C24_RTT_SWITCHING_MIN", min as i128)],
    );
}
