//! C01 — dialing by public key authenticates the remote endpoint.
//!
//! raw cases (bytes tokens are `h:<hex>`; a list is `<count> tok ...`):
//!   E <key>                                     tls::name::encode
//!   D <name-bytes>                              tls::name::decode
//!   S <ee> <list inters> <name-bytes>           ServerCertVerifier::verify_server_cert
//!   C <ee> <list inters>                        ClientCertVerifier::verify_client_cert
//!   G <checks_server 0|1> <tls12 0|1> <cert> <scheme> <msg> <sig>   verify_tls1x_signature
//!   R <list certs>                              remote id from peer certificates
//!   O <secret>                                  certificates an endpoint presents
//!   H <K> <ee> <list inters> <scheme> <msg> <sig>   client side of a handshake dialing K
//!   A <ee> <list inters> <scheme> <msg> <sig>       server side of a handshake
//!   X <secretA> <secretB> <K>                   A dials id K at the loopback address of B
//!
//! The Coq input carries an oracle: which 32-byte strings of the case are curve points and
//! which (key, message, signature) triples verify, both answered by the real ed25519-dalek
//! through iroh_base (`PublicKey::from_bytes`, `PublicKey::verify`).
use std::time::Duration;

use data_encoding::BASE32_DNSSEC;
use hcommon::*;
use iroh::verif_hooks::c01 as hook;
use iroh_base::{EndpointAddr, EndpointId, PublicKey, SecretKey, Signature};

const ALPN: &[u8] = b"verif/c01";
const PREFIX: [u8; 12] = [48, 42, 48, 5, 6, 3, 43, 101, 112, 3, 33, 0];
const ED25519: u16 = 0x0807;

// ---------------------------------------------------------------- keys

/// encodings of small-order points and non-canonical encodings (all accepted by decompress)
const ODD_KEYS: &[&str] = &[
    "0100000000000000000000000000000000000000000000000000000000000000", // identity
    "ecffffffffffffffffffffffffffffffffffffffffffffffffffffffffffff7f", // order 2
    "0000000000000000000000000000000000000000000000000000000000000000", // order 4
    "0000000000000000000000000000000000000000000000000000000000000080", // order 4
    "26e8958fc2b227b045c3f489f2ef98f0d5dfac05d3c63339b13802886d53fc05", // order 8
    "26e8958fc2b227b045c3f489f2ef98f0d5dfac05d3c63339b13802886d53fc85", // order 8
    "c7176a703d4dd84fba3c0b760d10670f2a2053fa2c39ccc64ec7fd7792ac037a", // order 8
    "c7176a703d4dd84fba3c0b760d10670f2a2053fa2c39ccc64ec7fd7792ac03fa", // order 8
    "0100000000000000000000000000000000000000000000000000000000000080", // identity, sign bit set
    "edffffffffffffffffffffffffffffffffffffffffffffffffffffffffffff7f", // y = p
    "eeffffffffffffffffffffffffffffffffffffffffffffffffffffffffffff7f", // y = p + 1
    "ecffffffffffffffffffffffffffffffffffffffffffffffffffffffffffffff", // order 2, sign bit set
];

struct Key {
    bytes: [u8; 32],
    secret: Option<SecretKey>,
}

fn is_point(k: &[u8; 32]) -> bool {
    PublicKey::from_bytes(k).is_ok()
}

fn gen_valid(rng: &mut Rng) -> Key {
    let seed: [u8; 32] = rng.bytes(32).try_into().unwrap();
    let sk = SecretKey::from_bytes(&seed);
    Key { bytes: *sk.public().as_bytes(), secret: Some(sk) }
}

fn gen_nonpoint(rng: &mut Rng) -> Key {
    loop {
        let k: [u8; 32] = rng.bytes(32).try_into().unwrap();
        if !is_point(&k) {
            return Key { bytes: k, secret: None };
        }
    }
}

fn gen_odd(rng: &mut Rng) -> Key {
    let s: &str = *rng.pick(ODD_KEYS);
    let k: [u8; 32] = unhex(s).try_into().unwrap();
    Key { bytes: k, secret: None }
}

/// a key that is a point (name::encode and dialing need an EndpointId)
fn gen_point(rng: &mut Rng) -> Key {
    if rng.chance(1, 6) {
        let k = gen_odd(rng);
        if is_point(&k.bytes) {
            return k;
        }
    }
    gen_valid(rng)
}

fn gen_anykey(rng: &mut Rng) -> Key {
    match rng.below(8) {
        0 => gen_nonpoint(rng),
        1 => gen_odd(rng),
        _ => gen_valid(rng),
    }
}

fn rbytes(rng: &mut Rng, lo: u64, hi: u64) -> Vec<u8> {
    let n = rng.range(lo, hi) as usize;
    rng.bytes(n)
}

fn spki(k: &[u8]) -> Vec<u8> {
    let mut v = PREFIX.to_vec();
    v.extend_from_slice(k);
    v
}

// ---------------------------------------------------------------- generators of the parts

fn tlv(tag: u8, lenbytes: &[u8], body: &[u8]) -> Vec<u8> {
    let mut v = vec![tag];
    v.extend_from_slice(lenbytes);
    v.extend_from_slice(body);
    v
}

fn short(body: &[u8]) -> Vec<u8> {
    vec![body.len() as u8]
}

/// DER-ish variations of a SubjectPublicKeyInfo around key `k`
fn derish(rng: &mut Rng, k: &[u8; 32]) -> Vec<u8> {
    let oid_ed = [6u8, 3, 43, 101, 112];
    let mut alg: Vec<u8> = oid_ed.to_vec();
    let mut key: Vec<u8> = k.to_vec();
    let mut unused = 0u8;
    let mut outer_tag = 0x30u8;
    let mut alg_tag = 0x30u8;
    let mut bit_tag = 0x03u8;
    let mut after_outer: Vec<u8> = vec![];
    let mut after_inner: Vec<u8> = vec![];
    // 0 short / 1: 0x81 n / 2: 0x82 0 n / 3: 0x83 / 4: 0x84 / 5: 0x80 / 6: length one too large / 7: one too small
    let (mut lo, mut la, mut lb) = (0u64, 0u64, 0u64);
    match rng.below(22) {
        0 => alg = vec![6, 3, 43, 101, 110],           // X25519
        1 => alg = vec![6, 3, 43, 101, 113],           // Ed448
        2 => alg = vec![6, 3, 43, 101, 112, 5, 0],     // Ed25519 with NULL parameters
        3 => alg = vec![6, 7, 42, 134, 72, 206, 61, 2, 1, 6, 8, 42, 134, 72, 206, 61, 3, 1, 7], // P-256
        4 => alg = vec![],
        5 => unused = rng.range(1, 7) as u8,
        6 => key.truncate(31),
        7 => key.push(rng.below(256) as u8),
        8 => outer_tag = *rng.pick(&[0x31u8, 0x10, 0x1f, 0x3f, 0xff, 0x00]),
        9 => alg_tag = *rng.pick(&[0x31u8, 0x04, 0x1f, 0x3f]),
        10 => bit_tag = *rng.pick(&[0x04u8, 0x02, 0x23, 0x1f]),
        11 => after_outer = rbytes(rng, 1, 3),
        12 => after_inner = rbytes(rng, 1, 3),
        13 => lo = rng.range(1, 7),
        14 => la = rng.range(1, 7),
        15 => lb = rng.range(1, 7),
        16 => key = vec![],
        17 => {
            // a long key: the outer length needs the one-byte long form
            key = rbytes(rng, 119, 130);
        }
        18 => {
            key = rng.bytes(300);
        }
        _ => {}
    }
    let enc = |mode: u64, body: &[u8]| -> Vec<u8> {
        let n = body.len();
        match mode {
            0 => {
                if n < 128 {
                    short(body)
                } else if n < 256 {
                    vec![0x81, n as u8]
                } else {
                    vec![0x82, (n >> 8) as u8, n as u8]
                }
            }
            1 => vec![0x81, n as u8],
            2 => vec![0x82, (n >> 8) as u8, n as u8],
            3 => vec![0x83, 0, (n >> 8) as u8, n as u8],
            4 => vec![0x84, 0, 0, (n >> 8) as u8, n as u8],
            5 => vec![0x80],
            6 => vec![(n + 1) as u8],
            _ => vec![n.saturating_sub(1) as u8],
        }
    };
    let mut bits = vec![unused];
    bits.extend_from_slice(&key);
    if rng.chance(1, 40) {
        bits.clear(); // BIT STRING without the unused-bits byte
    }
    let mut inner = tlv(alg_tag, &enc(la, &alg), &alg);
    inner.extend(tlv(bit_tag, &enc(lb, &bits), &bits));
    inner.extend(after_inner);
    let mut out = tlv(outer_tag, &enc(lo, &inner), &inner);
    out.extend(after_outer);
    out
}

/// end-entity bytes relative to key `k`; `other` is a different key
fn gen_ee(rng: &mut Rng, k: &[u8; 32], other: &[u8; 32]) -> Vec<u8> {
    let good = spki(k);
    match rng.below(16) {
        0 => {
            let mut v = good;
            let i = rng.below(12) as usize;
            v[i] ^= 1 << rng.below(8);
            v
        }
        1 => {
            let mut v = good;
            let i = rng.range(12, 43) as usize;
            v[i] ^= 1 << rng.below(8);
            v
        }
        2 => good[..rng.below(44) as usize].to_vec(),
        3 => {
            let mut v = good;
            v.extend(rbytes(rng, 1, 3));
            v
        }
        4 => spki(other),
        5 | 6 => derish(rng, k),
        7 => {
            let n = *rng.pick(&[0usize, 1, 2, 12, 32, 43, 44, 45, 64]);
            rng.bytes(n)
        }
        8 => k.to_vec(), // the bare key without the SPKI wrapping
        _ => good,
    }
}

fn gen_inters(rng: &mut Rng, k: &[u8; 32]) -> Vec<Vec<u8>> {
    let n = match rng.below(10) {
        0 => 1,
        1 => 2,
        _ => 0,
    };
    (0..n)
        .map(|_| match rng.below(3) {
            0 => spki(k),
            1 => vec![],
            _ => rbytes(rng, 1, 50),
        })
        .collect()
}

fn b32(k: &[u8]) -> String {
    BASE32_DNSSEC.encode(k)
}

const SYMS: &[u8] = b"0123456789abcdefghijklmnopqrstuv";

/// a server-name string relative to key `k`
fn gen_name(rng: &mut Rng, k: &[u8; 32], only_decode: bool) -> String {
    let label = b32(k);
    let good = format!("{label}.iroh.invalid");
    match rng.below(34) {
        0 => good.to_ascii_uppercase(),
        1 => format!("{}.iroh.invalid", label.to_ascii_uppercase()),
        2 => {
            // mixed case
            let l: String = label
                .chars()
                .map(|c| if rng.chance(1, 2) { c.to_ascii_uppercase() } else { c })
                .collect();
            format!("{l}.iroh.invalid")
        }
        3 => format!("{}.iroh.invalid", &label[..51]),
        4 => format!("{}{}.iroh.invalid", label, *rng.pick(SYMS) as char),
        5 => format!("{}0.iroh.invalid", &label[..51]), // last symbol replaced
        6 => {
            // non-alphabet symbol somewhere
            let mut l = label.into_bytes();
            let i = rng.below(52) as usize;
            l[i] = *rng.pick(b"wxyzWXYZ-_");
            format!("{}.iroh.invalid", String::from_utf8(l).unwrap())
        }
        7 => {
            // last symbol with non-zero trailing bits
            let mut l = label.into_bytes();
            let v = SYMS.iter().position(|c| *c == l[51]).unwrap();
            l[51] = SYMS[(v & 16) | rng.range(1, 15) as usize];
            format!("{}.iroh.invalid", String::from_utf8(l).unwrap())
        }
        8 => format!(
            "{label}.{}",
            rng.pick(&[
                "iroh.invalix", "Iroh.invalid", "iroh.INVALID", "iroh", "invalid", "iroh.invalid.invalid",
                "irohinvalid", "iroh.invalid.", "iroh..invalid", "n0.invalid", "iroh.localhost",
            ])
        ),
        9 => format!("x.{good}"),
        10 => format!("{good}.x"),
        11 => ".iroh.invalid".to_string(),
        12 => format!("{good}."),
        13 => format!(".{good}"),
        14 => rng.pick(&["127.0.0.1", "::1", "10.0.0.256", "1.2.3.4.iroh.invalid", "[::1]"]).to_string(),
        15 => label,
        16 => String::new(),
        17 => format!("{}.iroh.invalid", b32(&k[..31])),
        18 => {
            let mut l = k.to_vec();
            l.push(rng.below(256) as u8);
            format!("{}.iroh.invalid", b32(&l))
        }
        19 => format!("{}.iroh.invalid", b32(&rbytes(rng, 0, 40))),
        20 if only_decode => format!("{}é.iroh.invalid", &label[..50]),
        21 if only_decode => format!("{} .iroh.invalid", &label[..51]),
        22 => "iroh.invalid".to_string(),
        23 => format!("{}.iroh.invalid", label.replace('0', "o")),
        _ => good,
    }
}

const SCHEMES: &[u16] = &[
    0x0403, 0x0401, 0x0804, 0x0808, 0x0201, 0x0203, 0x0000, 0x0800, 0x0802, 0x0807, 0x0907, 0x0301, 0x0307,
    0x0407, 0x0507, 0x0806, 0xffff, 0x0402,
];

fn gen_scheme(rng: &mut Rng) -> u16 {
    match rng.below(10) {
        0 | 1 => *rng.pick(SCHEMES),
        2 if rng.chance(1, 3) => rng.below(65536) as u16,
        _ => ED25519,
    }
}

fn gen_msg(rng: &mut Rng) -> Vec<u8> {
    if rng.chance(1, 3) {
        // the shape rustls signs: 64 spaces, context string, 0, transcript hash
        let mut m = vec![0x20u8; 64];
        m.extend_from_slice(if rng.chance(1, 2) {
            b"TLS 1.3, server CertificateVerify\0"
        } else {
            b"TLS 1.3, client CertificateVerify\0"
        });
        m.extend(rng.bytes(32));
        m
    } else {
        let n = rng.below(40) as usize;
        rng.bytes(n)
    }
}

/// a signature relative to (`signer`, `msg`)
fn gen_sig(rng: &mut Rng, signer: &Key, msg: &[u8]) -> Vec<u8> {
    let Some(sk) = &signer.secret else {
        return match rng.below(4) {
            0 => vec![0u8; 64],
            1 => {
                // R = identity, s = 0: verifies under small-order keys without the strict checks
                let mut s = vec![0u8; 64];
                s[0] = 1;
                s
            }
            _ => rng.bytes(64),
        };
    };
    let good = sk.sign(msg).to_bytes().to_vec();
    match rng.below(14) {
        0 => {
            let mut s = good;
            let i = rng.below(64) as usize;
            s[i] ^= 1 << rng.below(8);
            s
        }
        1 => {
            let other = gen_valid(rng);
            other.secret.unwrap().sign(msg).to_bytes().to_vec()
        }
        2 => {
            let mut m = msg.to_vec();
            m.push(0);
            sk.sign(&m).to_bytes().to_vec()
        }
        3 => good[..*rng.pick(&[0usize, 1, 32, 63])].to_vec(),
        4 => {
            let mut s = good;
            s.push(0);
            s
        }
        5 => rng.bytes(64),
        _ => good,
    }
}

fn list_raw(v: &[Vec<u8>]) -> String {
    let mut s = v.len().to_string();
    for x in v {
        s.push(' ');
        s.push_str(&Bytes::Hex(x.clone()).raw());
    }
    s
}

fn hx(v: &[u8]) -> String {
    Bytes::Hex(v.to_vec()).raw()
}

fn generate(rng: &mut Rng, i: u64, _n: u64) -> String {
    // a few end-to-end dials
    if i % 400 == 7 {
        let a = rng.bytes(32);
        let b = rng.bytes(32);
        let k = if rng.chance(1, 2) {
            SecretKey::from_bytes(&b.clone().try_into().unwrap()).public().as_bytes().to_vec()
        } else {
            gen_point(rng).bytes.to_vec()
        };
        return format!("X {} {} {}", hx(&a), hx(&b), hx(&k));
    }
    match rng.below(20) {
        0 => format!("E {}", hx(&gen_point(rng).bytes)),
        1..=4 => {
            let k = gen_anykey(rng);
            format!("D {}", hx(gen_name(rng, &k.bytes, true).as_bytes()))
        }
        5..=8 => {
            let k = gen_anykey(rng);
            let other = gen_valid(rng);
            // mostly the matching certificate, so that the name decides
            let e = if rng.chance(1, 2) { spki(&k.bytes) } else { gen_ee(rng, &k.bytes, &other.bytes) };
            let name = if rng.chance(1, 2) { format!("{}.iroh.invalid", b32(&k.bytes)) } else { gen_name(rng, &k.bytes, false) };
            format!("S {} {} {}", hx(&e), list_raw(&gen_inters(rng, &k.bytes)), hx(name.as_bytes()))
        }
        9 => {
            let k = gen_anykey(rng);
            let other = gen_valid(rng);
            format!("C {} {}", hx(&gen_ee(rng, &k.bytes, &other.bytes)), list_raw(&gen_inters(rng, &k.bytes)))
        }
        10..=12 => {
            let k = gen_anykey(rng);
            let other = gen_valid(rng);
            let msg = gen_msg(rng);
            let sig = gen_sig(rng, &k, &msg);
            let e = if rng.chance(1, 2) { spki(&k.bytes) } else { gen_ee(rng, &k.bytes, &other.bytes) };
            let tls12 = rng.chance(1, 12);
            format!(
                "G {} {} {} {} {} {}",
                rng.below(2),
                tls12 as u8,
                hx(&e),
                gen_scheme(rng),
                hx(&msg),
                hx(&sig)
            )
        }
        13 => {
            let k = gen_anykey(rng);
            let other = gen_valid(rng);
            let n = match rng.below(8) {
                0 => 0,
                1 => 2,
                _ => 1,
            };
            let cs: Vec<Vec<u8>> = (0..n)
                .map(|_| if rng.chance(1, 2) { spki(&k.bytes) } else { gen_ee(rng, &k.bytes, &other.bytes) })
                .collect();
            format!("R {}", list_raw(&cs))
        }
        14 => format!("O {}", hx(&rng.bytes(32))),
        15..=17 => {
            // client side: dial K; the server holds `held` (K itself or another key)
            let k = gen_point(rng);
            let other = gen_anykey(rng);
            let held = if rng.chance(1, 2) { &k } else { &other };
            let third = gen_valid(rng);
            let e = if rng.chance(2, 3) { spki(&held.bytes) } else { gen_ee(rng, &held.bytes, &third.bytes) };
            let msg = gen_msg(rng);
            let signer = if rng.chance(5, 6) { held } else { &third };
            let sig = gen_sig(rng, signer, &msg);
            format!(
                "H {} {} {} {} {} {}",
                hx(&k.bytes),
                hx(&e),
                list_raw(&gen_inters(rng, &held.bytes)),
                gen_scheme(rng),
                hx(&msg),
                hx(&sig)
            )
        }
        _ => {
            let held = gen_anykey(rng);
            let third = gen_valid(rng);
            let e = if rng.chance(2, 3) { spki(&held.bytes) } else { gen_ee(rng, &held.bytes, &third.bytes) };
            let msg = gen_msg(rng);
            let signer = if rng.chance(5, 6) { &held } else { &third };
            let sig = gen_sig(rng, signer, &msg);
            format!(
                "A {} {} {} {} {}",
                hx(&e),
                list_raw(&gen_inters(rng, &held.bytes)),
                gen_scheme(rng),
                hx(&msg),
                hx(&sig)
            )
        }
    }
}

// ---------------------------------------------------------------- run

struct Toks<'a>(std::str::SplitWhitespace<'a>);
impl Toks<'_> {
    fn bytes(&mut self) -> Vec<u8> {
        Bytes::parse(self.0.next().expect("token")).to_vec()
    }
    fn num(&mut self) -> u64 {
        self.0.next().expect("token").parse().expect("number")
    }
    fn list(&mut self) -> Vec<Vec<u8>> {
        let n = self.num();
        (0..n).map(|_| self.bytes()).collect()
    }
}

/// The oracle of a case: real answers for every key / triple the model can ask about.
#[derive(Default)]
struct Oracle {
    keys: Vec<[u8; 32]>,
    msgs: Vec<(Vec<u8>, Vec<u8>)>,
}

impl Oracle {
    fn key(&mut self, k: &[u8]) {
        if let Ok(k) = <[u8; 32]>::try_from(k) {
            if !self.keys.contains(&k) {
                self.keys.push(k);
            }
        }
    }
    fn cert(&mut self, c: &[u8]) {
        if c.len() >= 32 {
            self.key(&c[c.len() - 32..]);
        }
        if c.len() >= 44 {
            self.key(&c[12..44]);
        }
    }
    fn name(&mut self, s: &str) {
        if let Some(l) = s.split('.').next() {
            if let Ok(k) = BASE32_DNSSEC.decode(l.as_bytes()) {
                self.key(&k);
            }
        }
    }
    fn coq(&self) -> String {
        let pts: Vec<&[u8; 32]> = self.keys.iter().filter(|k| is_point(k)).collect();
        let mut sigs = Vec::new();
        for k in &pts {
            let pk = PublicKey::from_bytes(k).unwrap();
            for (m, s) in &self.msgs {
                if let Ok(sb) = <[u8; 64]>::try_from(s.as_slice()) {
                    if pk.verify(m, &Signature::from_bytes(&sb)).is_ok() {
                        sigs.push(format!("({}, {}, {})", coq_hex(*k), coq_hex(m), coq_hex(s)));
                    }
                }
            }
        }
        format!(
            "(C01.mkOracle {} [{}])",
            coq_list(pts.iter(), |k| coq_hex(*k)),
            sigs.join("; ")
        )
    }
}

fn code(r: &Result<(), String>) -> u64 {
    match r {
        Ok(()) => 0,
        Err(e) => match e.as_str() {
            "UnsupportedNameType" => 1,
            "InvalidCertificate(NotValidForName)" => 2,
            "InvalidCertificate(UnknownIssuer)" => 3,
            "PeerIncompatible(Tls12NotOffered)" => 4,
            "PeerMisbehaved(SignedHandshakeWithUnadvertisedSigScheme)" => 5,
            "InvalidCertificate(BadEncoding)" => 6,
            "InvalidCertificate(BadSignature)" => 8,
            "InvalidServerName" => 9,
            s if s.starts_with("InvalidCertificate(UnsupportedSignatureAlgorithmForPublicKeyContext") => 7,
            _ => 99,
        },
    }
}

fn coq_id(o: Option<EndpointId>) -> String {
    coq_opt(o, |k| coq_hex(k.as_bytes()))
}

fn coq_blist(v: &[Vec<u8>]) -> String {
    coq_list(v.iter(), |b| coq_hex(b))
}

fn coq_sname(s: &str) -> String {
    match hook::server_name_kind(s) {
        0 => format!("(C01.SnDns {})", coq_str_bytes(s)),
        1 => "C01.SnIp".to_string(),
        _ => "C01.SnNone".to_string(),
    }
}

fn coq_hs(e: &[u8], inters: &[Vec<u8>], scheme: u64, msg: &[u8], sig: &[u8]) -> String {
    format!(
        "(C01.mkHs {} {} {scheme} {} {})",
        coq_hex(e),
        coq_blist(inters),
        coq_hex(msg),
        coq_hex(sig)
    )
}

fn tls() -> hook::Tls {
    // the verifiers do not depend on the local key
    hook::Tls::new(SecretKey::from_bytes(&[42u8; 32]))
}

fn out<T>(r: Caught<T>, f: impl Fn(&T) -> String) -> String {
    match r {
        Caught::Value(v) => format!("(Ok {})", f(&v)),
        Caught::Panicked(_) => "Panic".to_string(),
    }
}

fn run(raw: &str) -> (String, String) {
    let mut t = Toks(raw.split_whitespace());
    let op = t.0.next().expect("op");
    let mut or = Oracle::default();
    match op {
        "E" => {
            let k = t.bytes();
            or.key(&k);
            let r = catch(|| {
                let id = EndpointId::from_bytes(&k.clone().try_into().expect("32 bytes")).expect("point");
                hook::name_encode(id)
            });
            if let Caught::Value(s) = &r {
                or.name(s);
            }
            (
                format!("({}, C01.OpEncode {})", or.coq(), coq_hex(&k)),
                out(r, |s| format!("(C01.OBytes {})", coq_str_bytes(s))),
            )
        }
        "D" => {
            let s = String::from_utf8_lossy(&t.bytes()).into_owned();
            or.name(&s);
            let r = catch(|| hook::name_decode(&s));
            (
                format!("({}, C01.OpDecode {})", or.coq(), coq_str_bytes(&s)),
                out(r, |o| format!("(C01.OOpt {})", coq_id(*o))),
            )
        }
        "S" => {
            let e = t.bytes();
            let inters = t.list();
            let s = String::from_utf8_lossy(&t.bytes()).into_owned();
            or.name(&s);
            or.cert(&e);
            let r = catch(|| tls().verify_server_cert(&e, &inters, &s));
            (
                format!(
                    "({}, C01.OpServerCert {} {} {})",
                    or.coq(),
                    coq_hex(&e),
                    coq_blist(&inters),
                    coq_sname(&s)
                ),
                out(r, |r| format!("(C01.OCode {})", code(r))),
            )
        }
        "C" => {
            let e = t.bytes();
            let inters = t.list();
            or.cert(&e);
            let r = catch(|| tls().verify_client_cert(&e, &inters));
            (
                format!("({}, C01.OpClientCert {} {})", or.coq(), coq_hex(&e), coq_blist(&inters)),
                out(r, |r| format!("(C01.OCode {})", code(r))),
            )
        }
        "G" => {
            let side = t.num() == 1;
            let tls12 = t.num() == 1;
            let cert = t.bytes();
            let scheme = t.num();
            let msg = t.bytes();
            let sig = t.bytes();
            or.cert(&cert);
            or.msgs.push((msg.clone(), sig.clone()));
            let r = catch(|| tls().verify_signature(side, tls12, &msg, &cert, scheme as u16, &sig));
            (
                format!(
                    "({}, C01.OpSig {} {} {} {scheme} {} {})",
                    or.coq(),
                    coq_bool(side),
                    coq_bool(tls12),
                    coq_hex(&cert),
                    coq_hex(&msg),
                    coq_hex(&sig)
                ),
                out(r, |r| format!("(C01.OCode {})", code(r))),
            )
        }
        "R" => {
            let cs = t.list();
            for c in &cs {
                or.cert(c);
            }
            let r = catch(|| hook::remote_id_of_certs(&cs));
            (
                format!("({}, C01.OpRemoteId {})", or.coq(), coq_blist(&cs)),
                out(r, |o| format!("(C01.OOpt {})", coq_id(*o))),
            )
        }
        "O" => {
            let seed: [u8; 32] = t.bytes().try_into().expect("32 bytes");
            let sk = SecretKey::from_bytes(&seed);
            let k = *sk.public().as_bytes();
            or.key(&k);
            let r = catch(|| hook::Tls::new(sk.clone()).own_certs());
            (
                format!("({}, C01.OpOwnCerts {})", or.coq(), coq_hex(&k)),
                out(r, |l| format!("(C01.OList {})", coq_blist(l))),
            )
        }
        "H" | "A" => {
            let k = if op == "H" { Some(t.bytes()) } else { None };
            let e = t.bytes();
            let inters = t.list();
            let scheme = t.num();
            let msg = t.bytes();
            let sig = t.bytes();
            or.cert(&e);
            or.msgs.push((msg.clone(), sig.clone()));
            if let Some(k) = &k {
                or.key(k);
            }
            let r = catch(|| {
                let tls = tls();
                let c = match &k {
                    Some(k) => {
                        // what connect_with_opts does: the server name is name::encode(endpoint_id)
                        let id = EndpointId::from_bytes(&k.clone().try_into().expect("32 bytes")).expect("point");
                        let name = hook::name_encode(id);
                        tls.verify_server_cert(&e, &inters, &name)
                    }
                    None => tls.verify_client_cert(&e, &inters),
                };
                let s = tls.verify_signature(k.is_some(), false, &msg, &e, scheme as u16, &sig);
                let rid = hook::remote_id_of_certs(std::slice::from_ref(&e));
                (code(&c), code(&s), rid)
            });
            let h = coq_hs(&e, &inters, scheme, &msg, &sig);
            let opterm = match &k {
                Some(k) => {
                    // the name the model derives is decoded again: make its key known
                    or.name(&format!("{}.iroh.invalid", BASE32_DNSSEC.encode(k)));
                    format!("C01.OpClientHs {} {h}", coq_hex(k))
                }
                None => format!("C01.OpServerHs {h}"),
            };
            (
                format!("({}, {opterm})", or.coq()),
                out(r, |(c, s, rid)| format!("(C01.OHs {c} {s} {})", coq_id(*rid))),
            )
        }
        "X" => {
            let sa: [u8; 32] = t.bytes().try_into().expect("32 bytes");
            let sb: [u8; 32] = t.bytes().try_into().expect("32 bytes");
            let k: [u8; 32] = t.bytes().try_into().expect("32 bytes");
            let ka = *SecretKey::from_bytes(&sa).public().as_bytes();
            let kb = *SecretKey::from_bytes(&sb).public().as_bytes();
            or.key(&ka);
            or.key(&kb);
            or.key(&k);
            let r = catch(|| dial(sa, sb, k));
            (
                format!(
                    "({}, C01.OpDial {} {} {})",
                    or.coq(),
                    coq_hex(&k),
                    coq_hex(&kb),
                    coq_hex(&ka)
                ),
                out(r, |(ok, ra, rb)| {
                    format!("(C01.ODial {} {} {})", coq_bool(*ok), coq_id(*ra), coq_id(*rb))
                }),
            )
        }
        _ => panic!("bad op {op}"),
    }
}

/// Endpoint A (secret `sa`) dials id `k` at the loopback address of endpoint B (secret `sb`),
/// public API only.  Returns (both sides established, remote id seen by A, remote id seen by B).
fn dial(sa: [u8; 32], sb: [u8; 32], k: [u8; 32]) -> (bool, Option<EndpointId>, Option<EndpointId>) {
    use iroh::{Endpoint, endpoint::presets};
    let rt = tokio::runtime::Builder::new_multi_thread()
        .worker_threads(2)
        .enable_all()
        .build()
        .expect("runtime");
    let res = rt.block_on(async move {
        let b = Endpoint::builder(presets::Minimal)
            .secret_key(SecretKey::from_bytes(&sb))
            .alpns(vec![ALPN.to_vec()])
            .bind_addr("127.0.0.1:0")
            .expect("addr")
            .bind()
            .await
            .expect("bind b");
        let a = Endpoint::builder(presets::Minimal)
            .secret_key(SecretKey::from_bytes(&sa))
            .bind_addr("127.0.0.1:0")
            .expect("addr")
            .bind()
            .await
            .expect("bind a");
        let baddr = b
            .bound_sockets()
            .into_iter()
            .find(|s| s.is_ipv4())
            .expect("ipv4 socket");
        let baddr = std::net::SocketAddr::from(([127, 0, 0, 1], baddr.port()));
        let (tx, mut rx) = tokio::sync::mpsc::unbounded_channel();
        let b2 = b.clone();
        let server = tokio::spawn(async move {
            while let Some(incoming) = b2.accept().await {
                if let Ok(conn) = incoming.await {
                    let _ = tx.send(Some(conn.remote_id()));
                    // keep the connection until the client closes it
                    conn.closed().await;
                }
            }
        });
        let id = EndpointId::from_bytes(&k).expect("point");
        let target = EndpointAddr::new(id).with_ip_addr(baddr);
        let client = tokio::time::timeout(Duration::from_secs(30), a.connect(target, ALPN)).await;
        let out = match client {
            Ok(Ok(conn)) => {
                let ra = Some(conn.remote_id());
                let rb = tokio::time::timeout(Duration::from_secs(20), rx.recv()).await;
                let rb = rb.ok().flatten();
                conn.close(0u32.into(), b"done");
                match rb {
                    Some(rb) => (true, ra, rb),
                    None => (false, ra, None),
                }
            }
            _ => {
                // the dial failed: the listener must not have an established connection either
                let rb = tokio::time::timeout(Duration::from_millis(300), rx.recv()).await;
                (false, None, rb.ok().flatten().flatten())
            }
        };
        server.abort();
        let _ = tokio::time::timeout(Duration::from_secs(5), a.close()).await;
        let _ = tokio::time::timeout(Duration::from_secs(5), b.close()).await;
        out
    });
    rt.shutdown_timeout(Duration::from_secs(2));
    res
}

fn main() {
    main_with(generate, run);
}
