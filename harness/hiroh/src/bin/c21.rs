//! C21 — RemoteMap / RemoteStateActor: requests across idle shutdown and restart
//! (iroh/src/socket/remote_map.rs, iroh/src/socket/remote_map/remote_state.rs).
//!
//! A real `RemoteMap` (hook constructor, no address lookup services) runs on a
//! current-thread tokio runtime with a paused clock; the owner (what the socket actor
//! does with `&mut RemoteMap`) is one task, every `RemoteStateActor` is one task, the
//! driver is a third.  Pause points `remote.actor.before_close` / `after_close` hold an
//! actor between its decision to stop, `inbox.close()` and the drain of the inbox.
//!
//! raw case: space separated commands
//!   q<r>  owner: resolve_remote(remote r, next sequence number)   (r in 0..=1)
//!   f<r>  foreign `try_send(NetworkChange)` through the read-only sender map
//!   c     owner: one poll of `cleanup()`
//!   t     advance the clock by 61 s (past ACTOR_MAX_IDLE_TIMEOUT)
//!   x<r>  let the actor of r parked before `inbox.close()` go on (it parks after the close)
//!   y<r>  let the actor of r parked after the close drain and return
//!   d     drop the local-address watchable (running actors break)
//!   s     cancel the shutdown token
//!   u     disarm both pause points (actors no longer park)
//!   w     let every task run until nothing moves (also implied by t, x, y; the other
//!         commands do not yield, so e.g. `q0 f0 f0 w` queues all three before anyone runs)
//! After the script: everything is released, the clock advanced and cleanup polled until
//! no task is left; then every reply channel is inspected.
//!
//! Output: the event trace in execution order as a Coq `list C21.ev` (see Model/C21.v).
//! `race <attempts> <max_delay_ns>`: multi-thread stress of the close/send window.
use std::{
    sync::{Arc, Mutex},
    time::{Duration, Instant},
};

use hcommon::*;
use iroh::verif_hooks::{c21 as hook, sched};
use tokio::sync::{mpsc, oneshot::error::TryRecvError};

const TEMPLATES: &[&str] = &[
    // send before the close (lands in the leftover), cleanup restarts
    "q0 w t q0 w x0 y0 c w",
    // send after the close: SendError, the owner joins and restarts
    "q0 w t x0 q0 w y0 w",
    // send after the task returned, before cleanup
    "q0 w t x0 y0 q0 w",
    // cleanup first, then a fresh start
    "q0 w t x0 y0 c w q0 w",
    // a foreign message arrives in each window
    "q0 w t f0 x0 y0 c w q0 w",
    "q0 w t x0 f0 y0 c w q0 w",
    "q0 w t x0 y0 f0 c w f0 q0 w",
    // two remotes: the owner joins remote 1 while waiting for remote 0
    "q0 q1 w t x0 x1 y1 q0 w y0 w",
    "q0 w q1 w t q1 w x0 x1 q0 w y1 y0 w c c w",
    // leftover of one remote restarted by a send to the other
    "q0 q1 w t q0 w x0 y0 x1 q1 w y1 w",
    // requests queue up unhandled; the idle timeout cannot fire before they are handled
    "q0 q0 q0 t w",
    // full inbox: the owner waits for capacity
    "q0 w q0 f0 f0 f0 f0 f0 f0 f0 f0 f0 f0 f0 f0 f0 f0 f0 f0 f0 w",
    // full inbox, owner waiting for capacity, the actor stops (address watcher gone) right
    // after handling the backlog: the permit handed to the waiting owner is used after
    // close + drain
    "q0 w u q0 f0 f0 f0 f0 f0 f0 f0 f0 f0 f0 f0 f0 f0 f0 f0 f0 d w c w",
    "q0 w q0 f0 f0 f0 f0 f0 f0 f0 f0 f0 f0 f0 f0 f0 f0 f0 f0 d w x0 y0 c w",
    // shutdown
    "q0 w s w x0 q0 w y0 w",
    "q0 q1 w s w q0 w x0 x1 y0 y1 c c w",
];

fn generate(rng: &mut Rng, i: u64, _n: u64) -> String {
    if (i as usize) < TEMPLATES.len() {
        return TEMPLATES[i as usize].to_string();
    }
    let two = rng.chance(1, 2);
    let r = |rng: &mut Rng| if two { rng.below(2) } else { 0 };
    let mut out = vec![format!("q{}", r(rng)), "w".to_string()];
    let len = 4 + rng.below(6 + (i % 16));
    for _ in 0..len {
        if rng.chance(1, 12) {
            // a burst that fills the inbox (capacity 16)
            let who = r(rng);
            for _ in 0..rng.range(14, 17) {
                out.push(format!("f{who}"));
            }
        }
        let c = match rng.below(25) {
            24 => "u".to_string(),
            0..=5 => format!("q{}", r(rng)),
            6..=7 => format!("f{}", r(rng)),
            8..=10 => "c".to_string(),
            11..=13 => "t".to_string(),
            14..=16 => format!("x{}", r(rng)),
            17..=19 => format!("y{}", r(rng)),
            20..=22 => "w".to_string(),
            _ => (if rng.chance(1, 2) { "d" } else { "s" }).to_string(),
        };
        let yields = matches!(&c[..1], "t" | "x" | "y" | "w");
        out.push(c);
        if !yields && rng.chance(2, 3) {
            out.push("w".to_string());
        }
    }
    out.join(" ")
}

enum Cmd {
    Resolve(u8, u16),
    Cleanup,
}

type Replies = Arc<Mutex<Vec<(u16, hook::Reply)>>>;

async fn settle() {
    for _ in 0..40 {
        tokio::task::yield_now().await;
    }
}

/// tickets of parked actors: (point, remote) -> ticket, from the log
#[derive(Default)]
struct Obs {
    log: Vec<(String, String)>,
    parked: Vec<(String, String, u64)>,
    last_actor_ev: Option<String>,
}

impl Obs {
    fn pump(&mut self) {
        for (_, name, detail) in sched::take_log() {
            match name.as_str() {
                "c21.break" | "c21.closed" => self.last_actor_ev = Some(detail.clone()),
                "parked" => {
                    let (point, t) = detail.rsplit_once('#').unwrap();
                    let r = self.last_actor_ev.take().unwrap_or_else(|| "?".into());
                    self.parked.push((point.to_string(), r, t.parse().unwrap()));
                }
                _ => {}
            }
            self.log.push((name, detail));
        }
    }
    fn take_ticket(&mut self, point: &str, r: &str) -> Option<u64> {
        let i = self.parked.iter().position(|(p, rr, _)| p == point && rr == r)?;
        Some(self.parked.remove(i).2)
    }
}

fn coq_msg(m: &str) -> String {
    match m.strip_prefix('q') {
        Some(n) => format!("C21.MReq {n}"),
        None => "C21.MNet".to_string(),
    }
}

fn coq_msgs(l: &str) -> String {
    let v: Vec<String> = l.split(',').filter(|s| !s.is_empty()).map(coq_msg).collect();
    format!("[{}]", v.join("; "))
}

/// Turns the execution-ordered log into model events.
fn build_trace(log: &[(String, String)], errors: &mut Vec<String>) -> Vec<String> {
    let mut tr: Vec<String> = Vec::new();
    let mut last_join: Option<(String, String)> = None;
    let mut fresh_start: Option<String> = None;
    // (remote, failed, position before the EClose of that remote's actor)
    let mut sending: Option<(String, bool, Option<usize>)> = None;
    for (name, detail) in log {
        let (r, rest) = detail.split_once(' ').unwrap_or((detail.as_str(), ""));
        match name.as_str() {
            "c21.start" => match last_join.take() {
                Some((jr, l)) if jr == r => {
                    tr.push(format!("C21.EJoin {r} {} {}", coq_msgs(&l), coq_msgs(rest)))
                }
                Some(_) => errors.push("start of another remote after join".into()),
                None => {
                    if !rest.is_empty() {
                        errors.push("fresh start with initial messages".into());
                    }
                    fresh_start = Some(r.to_string());
                }
            },
            "c21.removed" => match last_join.take() {
                Some((jr, l)) if jr == r => tr.push(format!("C21.EJoin {r} {} []", coq_msgs(&l))),
                _ => errors.push("removed without join".into()),
            },
            "c21.joined" => last_join = Some((r.to_string(), rest.to_string())),
            "c21.send" => {
                let started = fresh_start.take().as_deref() == Some(r);
                let n = rest.strip_prefix('q').unwrap_or("0");
                tr.push(format!("C21.EBegin {r} {n} {}", coq_bool(started)));
                sending = Some((r.to_string(), false, None));
            }
            "c21.send_err" => {
                tr.push("C21.EReserve false".to_string());
                if let Some(s) = sending.as_mut() {
                    s.1 = true;
                }
            }
            "c21.send_done" => {
                if let Some((_, failed, closed_pos)) = sending.take() {
                    if !failed {
                        // the permit was acquired before the channel was closed
                        match closed_pos {
                            Some(p) => tr.insert(p, "C21.EReserve true".to_string()),
                            None => tr.push("C21.EReserve true".to_string()),
                        }
                        tr.push("C21.EPush".to_string());
                    }
                }
            }
            "c21.handle" => tr.push(format!("C21.EHandle {r} ({})", coq_msg(rest))),
            "c21.break" => tr.push(format!("C21.EBreak {r}")),
            "c21.closed" => {
                if let Some((sr, false, pos @ None)) = sending.as_mut() {
                    if sr == r {
                        *pos = Some(tr.len());
                    }
                }
                tr.push(format!("C21.EClose {r}"));
            }
            "c21.return" => tr.push(format!("C21.EReturn {r} {}", coq_msgs(rest))),
            "h.foreign" => tr.push(format!("C21.EForeign {r} {rest}")),
            "h.answered" => tr.push(format!("C21.EAnswered {r}")),
            "h.end" => tr.push("C21.EEnd".to_string()),
            _ => {}
        }
    }
    tr
}

fn run_case(raw: &str) -> (String, Vec<String>, Vec<String>) {
    let toks: Vec<&str> = raw.split_whitespace().collect();
    let rt = tokio::runtime::Builder::new_current_thread()
        .enable_all()
        .start_paused(true)
        .build()
        .unwrap();
    let mut errors = Vec::new();
    let log = rt.block_on(async {
        sched::reset();
        sched::take_log();
        sched::arm(hook::BEFORE_CLOSE);
        sched::arm(hook::AFTER_CLOSE);
        let mut h = hook::Harness::new();
        let mut foreign = h.foreign();
        let replies: Replies = Default::default();
        let (cmd_tx, mut cmd_rx) = mpsc::unbounded_channel::<Cmd>();
        let owner = tokio::spawn({
            let replies = replies.clone();
            async move {
                while let Some(c) = cmd_rx.recv().await {
                    match c {
                        Cmd::Resolve(r, seq) => {
                            let rx = h.resolve_remote(r, seq).await;
                            replies.lock().unwrap().push((seq, rx));
                        }
                        Cmd::Cleanup => {
                            h.cleanup_now();
                        }
                    }
                }
                h
            }
        });
        let mut obs = Obs::default();
        let mut seq: u16 = 0;
        for tok in &toks {
            let (c, k) = tok.split_at(1);
            let r: u8 = k.parse().unwrap_or(0);
            match c {
                "q" => {
                    seq += 1;
                    cmd_tx.send(Cmd::Resolve(r, seq)).ok();
                }
                "c" => {
                    cmd_tx.send(Cmd::Cleanup).ok();
                }
                "f" => {
                    let res = foreign.try_send(r);
                    sched::event("h.foreign", format!("{r} {res}"));
                }
                "t" => tokio::time::sleep(Duration::from_secs(61)).await,
                "x" | "y" => {
                    obs.pump();
                    let point = if c == "x" { hook::BEFORE_CLOSE } else { hook::AFTER_CLOSE };
                    if let Some(t) = obs.take_ticket(point, &r.to_string()) {
                        sched::release(t);
                    }
                }
                "d" => foreign.disconnect_local_addrs(),
                "s" => foreign.shutdown(),
                "u" => {
                    sched::disarm(hook::BEFORE_CLOSE);
                    sched::disarm(hook::AFTER_CLOSE);
                }
                "w" => {}
                _ => panic!("bad command {tok}"),
            }
            if matches!(c, "t" | "x" | "y" | "w") {
                settle().await;
            }
            obs.pump();
        }
        // epilogue: run everything to completion
        sched::disarm(hook::BEFORE_CLOSE);
        sched::disarm(hook::AFTER_CLOSE);
        for round in 0..8 {
            settle().await;
            obs.pump();
            for (_, _, t) in obs.parked.drain(..) {
                sched::release(t);
            }
            settle().await;
            cmd_tx.send(Cmd::Cleanup).ok();
            settle().await;
            if round >= 1 {
                tokio::time::sleep(Duration::from_secs(61)).await;
            }
        }
        settle().await;
        for (seq, rx) in replies.lock().unwrap().iter_mut() {
            match rx.try_recv() {
                Ok(Ok(())) => sched::event("h.answered", format!("{seq}")),
                Ok(Err(_)) => sched::event("h.failed", format!("{seq}")),
                Err(TryRecvError::Closed) => sched::event("h.dropped", format!("{seq}")),
                Err(TryRecvError::Empty) => sched::event("h.unanswered", format!("{seq}")),
            }
        }
        sched::event("h.end", "");
        obs.pump();
        drop(cmd_tx);
        owner.abort();
        let _ = owner.await;
        obs.log
    });
    drop(rt);
    sched::reset();
    sched::take_log();
    let trace = build_trace(&log, &mut errors);
    let input = format!(
        "[{}]",
        toks.iter()
            .map(|t| {
                let (c, k) = t.split_at(1);
                let r: u64 = k.parse().unwrap_or(0);
                match c {
                    "q" => format!("C21.CQ {r}"),
                    "f" => format!("C21.CF {r}"),
                    "c" => "C21.CC".to_string(),
                    "t" => "C21.CT".to_string(),
                    "x" => format!("C21.CX {r}"),
                    "y" => format!("C21.CY {r}"),
                    "d" => "C21.CD".to_string(),
                    "s" => "C21.CS".to_string(),
                    "u" => "C21.CU".to_string(),
                    _ => "C21.CW".to_string(),
                }
            })
            .collect::<Vec<_>>()
            .join("; ")
    );
    (input, trace, errors)
}

fn run(raw: &str) -> (String, String) {
    let (input, trace, errors) = run_case(raw);
    let out = if errors.is_empty() {
        format!("(Ok [{}])", trace.join("; "))
    } else {
        eprintln!("c21: {raw}: harness errors {errors:?}");
        "(Err 1)".to_string()
    };
    (input, out)
}

/// Multi-thread stress of the window between the owner's permit acquisition and its push.
fn race(attempts: u64, max_delay_ns: u64) {
    let rt = tokio::runtime::Builder::new_multi_thread()
        .worker_threads(2)
        .enable_all()
        .build()
        .unwrap();
    let (mut lost, mut via_leftover, mut via_err) = (0u64, 0u64, 0u64);
    let mut x = 0x9E3779B97F4A7C15u64;
    let t0 = Instant::now();
    for a in 0..attempts {
        x ^= x << 13;
        x ^= x >> 7;
        x ^= x << 17;
        let delay = Duration::from_nanos(x % max_delay_ns.max(1));
        sched::reset();
        sched::take_log();
        sched::arm(hook::BEFORE_CLOSE);
        let mut h = rt.block_on(async { hook::Harness::new() });
        let mut rx1 = rt.block_on(h.resolve_remote(0, 1));
        h.shutdown();
        let Some(ticket) = sched::wait_parked_blocking(hook::BEFORE_CLOSE, Duration::from_secs(5))
        else {
            continue;
        };
        sched::disarm(hook::BEFORE_CLOSE);
        sched::take_log();
        sched::release(ticket);
        let t = Instant::now();
        while t.elapsed() < delay {
            std::hint::spin_loop();
        }
        let mut rx2 = rt.block_on(h.resolve_remote(0, 2));
        let deadline = Instant::now() + Duration::from_secs(5);
        let outcome = loop {
            rt.block_on(async { h.cleanup_now() });
            match rx2.try_recv() {
                Ok(_) => break 0,
                Err(TryRecvError::Closed) => break 1,
                Err(TryRecvError::Empty) => {}
            }
            if Instant::now() > deadline {
                break 2;
            }
            std::thread::yield_now();
        };
        let names: Vec<String> =
            sched::take_log().iter().map(|(_, n, d)| format!("{n}({d})")).collect();
        if outcome != 0 {
            lost += 1;
            if lost <= 5 {
                println!("LOST attempt {a} delay {delay:?} outcome {outcome}: {}", names.join(" "));
            }
        } else if names.iter().any(|n| n.starts_with("c21.send_err")) {
            via_err += 1;
        } else {
            via_leftover += 1;
        }
        let _ = rx1.try_recv();
        drop(h);
    }
    println!(
        "attempts {attempts} lost {lost} via_leftover {via_leftover} via_send_err {via_err} in {:?}",
        t0.elapsed()
    );
}

fn main() {
    let args: Vec<String> = std::env::args().collect();
    if args.get(1).map(|s| s.as_str()) == Some("race") {
        race(args[2].parse().unwrap(), args[3].parse().unwrap());
        return;
    }
    main_with(generate, run);
}
