fn main(){}
