//! C27 — Report::update, RelayLatencies::{update_relay, merge, get}.
//! raw case: `<probe>* | <probe>*` with probe = `kind:relay:latency_ns:fam:sid`
//! (kind 0 https / 1 qad v4 / 2 qad v6; fam 0 = V4, 1 = V6; sid < 8 identifies the address).
use std::{
    net::{Ipv4Addr, Ipv6Addr, SocketAddr, SocketAddrV4, SocketAddrV6},
    time::Duration,
};

use hcommon::*;
use iroh::verif_hooks::c27 as hook;
use iroh_base::RelayUrl;

type P = (u8, u64, u128, u8, u16);

const LATS: &[u128] = &[0, 1, 2, 999_999, 1_000_000, 1_000_001, 20_000_000, 1_000_000_000, 5_000_000_000];
const DUR_MAX: u128 = (u64::MAX as u128) * 1_000_000_000 + 999_999_999;

fn gen_probe(rng: &mut Rng, relays: u64, sids: u64) -> P {
    let kind = rng.below(3) as u8;
    let relay = rng.below(relays);
    let lat = match rng.below(12) {
        0 => DUR_MAX,
        1 | 2 => rng.below(50_000_000) as u128,
        _ => *rng.pick(LATS),
    };
    // mostly the right family for the probe kind; 1/6 wrong family
    let fam = if kind == 0 {
        rng.below(2) as u8
    } else if rng.chance(1, 6) {
        2 - kind
    } else {
        kind - 1
    };
    (kind, relay, lat, fam, rng.below(sids) as u16)
}

fn generate(rng: &mut Rng, i: u64, _n: u64) -> String {
    let relays = rng.range(1, 7);
    // few distinct addresses: equal observations must be frequent
    let sids = *rng.pick(&[1u64, 1, 2, 2, 3, 8]);
    let n1 = if i < 3 { i } else { rng.range(0, 20) };
    let n2 = rng.range(0, 8);
    let mut s = String::new();
    for _ in 0..n1 {
        let (k, r, l, f, a) = gen_probe(rng, relays, sids);
        s.push_str(&format!("{k}:{r}:{l}:{f}:{a} "));
    }
    s.push('|');
    for _ in 0..n2 {
        let (k, r, l, f, a) = gen_probe(rng, relays, sids);
        s.push_str(&format!(" {k}:{r}:{l}:{f}:{a}"));
    }
    s
}

fn url(id: u64) -> RelayUrl {
    assert!(id < 10);
    format!("https://r{id}.example").parse().unwrap()
}

fn url_id(u: &RelayUrl) -> u64 {
    let s = u.to_string();
    let d = s.strip_prefix("https://r").expect("url").as_bytes()[0];
    (d - b'0') as u64
}

fn sockaddr(fam: u8, sid: u16) -> SocketAddr {
    assert!(sid < 8);
    if fam == 0 {
        SocketAddr::V4(SocketAddrV4::new(Ipv4Addr::new(192, 0, 2, (sid / 4 + 1) as u8), 1000 + sid % 4))
    } else {
        SocketAddr::V6(SocketAddrV6::new(
            Ipv6Addr::new(0x2001, 0xdb8, 0, 0, 0, 0, 0, sid / 4 + 1),
            1000 + sid % 2,
            0,
            ((sid / 2) % 2) as u32,
        ))
    }
}

fn sid_of(a: &SocketAddr) -> (u8, u16) {
    for fam in 0..2u8 {
        for sid in 0..8u16 {
            if sockaddr(fam, sid) == *a {
                return (fam, sid);
            }
        }
    }
    panic!("unknown address {a}")
}

fn dur(ns: u128) -> Duration {
    Duration::new((ns / 1_000_000_000) as u64, (ns % 1_000_000_000) as u32)
}

fn parse(side: &str) -> Vec<P> {
    side.split_whitespace()
        .map(|t| {
            let f: Vec<&str> = t.split(':').collect();
            (
                f[0].parse().unwrap(),
                f[1].parse().unwrap(),
                f[2].parse().unwrap(),
                f[3].parse().unwrap(),
                f[4].parse().unwrap(),
            )
        })
        .collect()
}

fn coq_probes(ps: &[P]) -> String {
    coq_list(ps.iter(), |(k, r, l, f, a)| format!("(C27.mkProbe {k} {r} {l} (C27.mkSa {f} {a}))"))
}

fn coq_lat(l: &hook::RelayLatencies) -> String {
    let table = |k: u8| {
        let p = hook::probe_of(k);
        coq_list(l.iter().filter(|(q, _, _)| *q == p), |(_, u, d)| {
            format!("({}, {})", url_id(u), d.as_nanos())
        })
    };
    format!("(C27.mkLat {} {} {})", table(1), table(2), table(0))
}

fn coq_sa(a: SocketAddr) -> String {
    let (f, s) = sid_of(&a);
    format!("(C27.mkSa {f} {s})")
}

fn apply(ps: &[P]) -> hook::Report {
    let mut r = hook::Report::default();
    for (k, relay, lat, fam, sid) in ps {
        hook::report_update(&mut r, *k, url(*relay), dur(*lat), sockaddr(*fam, *sid));
    }
    r
}

fn run(raw: &str) -> (String, String) {
    let (a, b) = raw.split_once('|').expect("two histories");
    let (h1, h2) = (parse(a), parse(b));
    let coq_in = format!("(C27.mkIn {} {})", coq_probes(&h1), coq_probes(&h2));
    let r = catch(|| {
        let r1 = apply(&h1);
        let r2 = apply(&h2);
        let mut m12 = r1.relay_latency.clone();
        hook::merge(&mut m12, &r2.relay_latency);
        let mut m21 = r2.relay_latency.clone();
        hook::merge(&mut m21, &r1.relay_latency);
        let gets: Vec<Option<u128>> =
            (0..6).map(|k| hook::get(&m12, &url(k)).map(|d| d.as_nanos())).collect();
        format!(
            "(C27.mkOut (C27.mkRep {} {} {} {} {} {} {}) {} {} {} {})",
            coq_bool(r1.udp_v4),
            coq_bool(r1.udp_v6),
            coq_opt(r1.mapping_varies_by_dest_ipv4, coq_bool),
            coq_opt(r1.mapping_varies_by_dest_ipv6, coq_bool),
            coq_lat(&r1.relay_latency),
            coq_opt(r1.global_v4, |a| coq_sa(SocketAddr::V4(a))),
            coq_opt(r1.global_v6, |a| coq_sa(SocketAddr::V6(a))),
            coq_lat(&r2.relay_latency),
            coq_lat(&m12),
            coq_lat(&m21),
            coq_list(gets, |g| coq_opt(g, |n| n.to_string()))
        )
    });
    let out = match r {
        Caught::Value(s) => s,
        // a panic has no counterpart in the model: report an output that cannot agree
        Caught::Panicked(_) => "(C27.mkOut C27.report_default C27.lat_default C27.lat_default C27.lat_default [])".into(),
    };
    (coq_in, out)
}

fn main() {
    main_with(generate, run);
}
