//! C20 — Builder::bind_addr_with_opts accept/reject.
//! raw case: `<clear 0|1> <depth> <addrseed> [<req> ...]`, req = `<4|6>:<prefix_len>:<u|t|f>`
//! The case runs every sequence `prefix ++ s` for s over all sequences of length <= depth
//! of the 18 request kinds (depth-first preorder, same order as C20.exts).
use std::net::{Ipv4Addr, Ipv6Addr, SocketAddr, SocketAddrV4, SocketAddrV6};

use hcommon::*;
use iroh::endpoint::{BindOpts, Builder, InvalidSocketAddr};

#[derive(Clone, Copy, Debug, PartialEq)]
struct Req {
    v6: bool,
    prefix: u8,
    default: Option<bool>,
}

fn kinds() -> Vec<Req> {
    let mut v = Vec::new();
    for v6 in [false, true] {
        let ps: [u8; 3] = if v6 { [0, 64, 129] } else { [0, 24, 33] };
        for p in ps {
            for d in [None, Some(true), Some(false)] {
                v.push(Req { v6, prefix: p, default: d });
            }
        }
    }
    v
}

fn exts(d: u64, kinds: &[Req]) -> Vec<Vec<Req>> {
    if d == 0 {
        return vec![vec![]];
    }
    let sub = exts(d - 1, kinds);
    let mut out = vec![vec![]];
    for k in kinds {
        for s in &sub {
            let mut x = vec![*k];
            x.extend_from_slice(s);
            out.push(x);
        }
    }
    out
}

fn req_raw(r: &Req) -> String {
    format!(
        "{}:{}:{}",
        if r.v6 { 6 } else { 4 },
        r.prefix,
        match r.default {
            None => "u",
            Some(true) => "t",
            Some(false) => "f",
        }
    )
}

fn req_parse(t: &str) -> Req {
    let p: Vec<&str> = t.split(':').collect();
    Req {
        v6: p[0] == "6",
        prefix: p[1].parse().unwrap(),
        default: match p[2] {
            "u" => None,
            "t" => Some(true),
            _ => Some(false),
        },
    }
}

fn req_coq(r: &Req) -> String {
    format!(
        "(C20.mkReq {} {} {})",
        if r.v6 { "C20.V6" } else { "C20.V4" },
        r.prefix,
        coq_opt(r.default, coq_bool)
    )
}

const PREFIXES4: &[u8] = &[0, 0, 1, 8, 24, 31, 32, 33, 34, 64, 128, 129, 255];
const PREFIXES6: &[u8] = &[0, 0, 1, 32, 33, 64, 127, 128, 129, 130, 255];

fn generate(rng: &mut Rng, i: u64, _n: u64) -> String {
    let ks = kinds();
    let seed = rng.below(1 << 32);
    // exhaustive part: all sequences of length <= 4 over the 18 kinds
    if i < 324 {
        let a = &ks[(i / 18) as usize];
        let b = &ks[(i % 18) as usize];
        return format!("0 2 {seed} {} {}", req_raw(a), req_raw(b));
    }
    if i == 324 {
        return format!("0 1 {seed}");
    }
    // random part: longer sequences, arbitrary prefix lengths, optional clear_ip_transports
    let clear = rng.below(4) == 0;
    let len = match rng.below(10) {
        0 => rng.range(0, 2),
        1 | 2 => rng.range(9, 16),
        _ => rng.range(2, 8),
    };
    // density of default requests: low densities give long accepted sequences
    let dens = *rng.pick(&[1u64, 2, 3, 6]);
    let bad = rng.below(3) == 0;
    let mut reqs = Vec::new();
    for _ in 0..len {
        let v6 = rng.chance(1, 2);
        let mut prefix = if rng.chance(1, 5) {
            rng.below(256) as u8
        } else if v6 {
            *rng.pick(PREFIXES6)
        } else {
            *rng.pick(PREFIXES4)
        };
        let max = if v6 { 128 } else { 32 };
        if !bad && prefix > max {
            prefix %= max + 1;
        }
        // wanted default-route status, then one of its representations
        let want_default = rng.chance(1, dens);
        let default = if want_default {
            if prefix == 0 && rng.chance(1, 2) { None } else { Some(true) }
        } else if prefix != 0 && rng.chance(1, 2) {
            None
        } else {
            Some(false)
        };
        reqs.push(Req { v6, prefix, default });
    }
    let depth = if len <= 3 && rng.chance(1, 8) { 1 } else { 0 };
    let mut s = format!("{} {depth} {seed}", clear as u8);
    for r in &reqs {
        s.push(' ');
        s.push_str(&req_raw(r));
    }
    s
}

/// address, port and is_required do not influence the result; they are varied anyway
fn addr_of(seed: u64, idx: usize, v6: bool) -> (SocketAddr, bool) {
    let mut r = Rng::new(seed.wrapping_mul(1000003).wrapping_add(idx as u64));
    let port = if r.chance(1, 2) { 0 } else { r.below(65536) as u16 };
    let required = r.chance(1, 2);
    let addr = if v6 {
        let ip = match r.below(4) {
            0 => Ipv6Addr::UNSPECIFIED,
            1 => Ipv6Addr::LOCALHOST,
            _ => Ipv6Addr::from(((r.next_u64() as u128) << 64) | r.next_u64() as u128),
        };
        SocketAddr::V6(SocketAddrV6::new(ip, port, 0, r.below(3) as u32))
    } else {
        let ip = match r.below(4) {
            0 => Ipv4Addr::UNSPECIFIED,
            1 => Ipv4Addr::LOCALHOST,
            _ => Ipv4Addr::from(r.next_u64() as u32),
        };
        SocketAddr::V4(SocketAddrV4::new(ip, port))
    };
    (addr, required)
}

fn run_seq(clear: bool, seed: u64, reqs: &[Req]) -> (u64, u64) {
    let mut b = Builder::empty();
    if clear {
        b = b.clear_ip_transports();
    }
    for (k, r) in reqs.iter().enumerate() {
        let (addr, required) = addr_of(seed, k, r.v6);
        let mut opts = BindOpts::default().set_prefix_len(r.prefix).set_is_required(required);
        if let Some(d) = r.default {
            opts = opts.set_is_default_route(d);
        }
        match b.bind_addr_with_opts(addr, opts) {
            Ok(nb) => b = nb,
            Err(e) => {
                let code = match e {
                    InvalidSocketAddr::InvalidPrefixLength { .. } => 1,
                    InvalidSocketAddr::DuplicateDefaultAddr { .. } => 2,
                    InvalidSocketAddr::AddrParse { .. } => 3,
                    _ => 4,
                };
                return (k as u64, code);
            }
        }
    }
    (reqs.len() as u64, 0)
}

fn run(raw: &str) -> (String, String) {
    let t: Vec<&str> = raw.split_whitespace().collect();
    let clear = t[0] == "1";
    let depth: u64 = t[1].parse().unwrap();
    let seed: u64 = t[2].parse().unwrap();
    let pre: Vec<Req> = t[3..].iter().map(|x| req_parse(x)).collect();
    let coq_in = format!("({}, {}, {depth})", coq_bool(clear), coq_list(pre.iter(), req_coq));
    let ks = kinds();
    let mut outs = Vec::new();
    for s in exts(depth, &ks) {
        let mut seq = pre.clone();
        seq.extend_from_slice(&s);
        let r = catch(|| run_seq(clear, seed, &seq));
        outs.push(match r {
            Caught::Value(v) => v,
            Caught::Panicked(_) => (seq.len() as u64, 99),
        });
    }
    let out = coq_list(outs.iter(), |(k, e)| format!("({k}, {e})"));
    (coq_in, out)
}

fn main() {
    main_with(generate, run);
}
