//! C30 — `AddressLookupServices::{add_boxed, publish, clear}` under forced schedules.
//!
//! raw case: `<filter 0-3> <op>;<op>;... <choice>,<choice>,...`
//!   op     = `P<uid>/<addr>.<addr>...` (publish; addr = `r<k>` relay or `i<k>` ip; `P<uid>/` = no address)
//!          | `A<id>` (add service <id>) | `C` (clear)
//!   choice = index of the call to release next (ignored when that call cannot be released now).
//!
//! Every call runs on its own OS thread and is stopped at the pause points
//! `lookup.publish.after_services` (passed through at once), the recording service's
//! `publish` (before it records), `lookup.publish.before_store` and `lookup.add.after_read`.
//! Exactly one call is released at a time; it is observed either to reach its next pause
//! point / return (`Go t`) or not to get there within `BLOCK_MS` (`Blk t`, it waits for a
//! lock; its later progress is recorded as `Go t` when it happens).  The observed event
//! list is the model's schedule; the observed end state (all service.publish calls in
//! order, the services vector, last_data) is compared with the model's.
use std::{
    cell::Cell,
    io::{BufRead, Write},
    sync::{
        Arc, Mutex,
        atomic::{AtomicBool, AtomicU64, Ordering},
    },
    time::{Duration, Instant},
};

use hcommon::*;
use iroh::{
    RelayUrl, TransportAddr,
    address_lookup::{AddrFilter, AddressLookup, AddressLookupServices, EndpointData, UserData},
    verif_hooks::{c30 as hook, sched},
};

const BLOCK_MS: u64 = 120;
const PROGRESS_MS: u64 = 20_000;
const P_AFTER_SERVICES: &str = "lookup.publish.after_services";
const P_BEFORE_STORE: &str = "lookup.publish.before_store";
const P_AFTER_READ: &str = "lookup.add.after_read";
const P_SVC: &str = "c30.service.publish";
const POINTS: [&str; 4] = [P_AFTER_SERVICES, P_BEFORE_STORE, P_AFTER_READ, P_SVC];

// ---------- data ----------
type Addr = (bool, u64);
type Data = (u64, Vec<Addr>);

#[derive(Clone, Debug)]
enum Op {
    Publish(Data),
    Add(u64),
    Clear,
}

fn to_endpoint_data(d: &Data) -> EndpointData {
    let addrs: Vec<TransportAddr> = d
        .1
        .iter()
        .map(|(relay, k)| {
            if *relay {
                TransportAddr::Relay(format!("https://r{k}.test").parse::<RelayUrl>().unwrap())
            } else {
                TransportAddr::Ip(std::net::SocketAddr::from(([10, 0, (*k >> 8) as u8, *k as u8], 7000)))
            }
        })
        .collect();
    let mut e = EndpointData::new(addrs);
    e.set_user_data(Some(UserData::try_from(format!("u{}", d.0)).unwrap()));
    e
}

fn from_endpoint_data(e: &EndpointData) -> Data {
    let uid = e
        .user_data()
        .and_then(|u| u.as_ref().strip_prefix('u').and_then(|s| s.parse().ok()))
        .unwrap_or(u64::MAX);
    let addrs = e
        .addrs()
        .map(|a| match a {
            TransportAddr::Relay(url) => {
                let h = url.host_str().unwrap_or("");
                let k = h.strip_prefix('r').and_then(|s| s.strip_suffix(".test")).and_then(|s| s.parse().ok());
                (true, k.unwrap_or(u64::MAX))
            }
            TransportAddr::Ip(sa) => match sa.ip() {
                std::net::IpAddr::V4(v4) => {
                    let o = v4.octets();
                    (false, ((o[2] as u64) << 8) | o[3] as u64)
                }
                _ => (false, u64::MAX),
            },
            _ => (false, u64::MAX - 1),
        })
        .collect();
    (uid, addrs)
}

// ---------- recording service ----------
thread_local! {
    /// true on a thread that runs `publish`: only there the service double is a pause point
    static IN_PUBLISH: Cell<bool> = const { Cell::new(false) };
}

#[derive(Debug)]
struct Recorder {
    id: u64,
    log: Arc<Mutex<Vec<(u64, Data)>>>,
}

impl AddressLookup for Recorder {
    fn publish(&self, data: &EndpointData) {
        if IN_PUBLISH.with(|c| c.get()) {
            sched::pause_sync(P_SVC);
        }
        self.log.lock().unwrap().push((self.id, from_endpoint_data(data)));
    }
}

// ---------- parsing / printing ----------
fn parse_addr(t: &str) -> Addr {
    let (k, rest) = t.split_at(1);
    (k == "r", rest.parse().expect("addr id"))
}

fn parse_op(t: &str) -> Op {
    if t == "C" {
        Op::Clear
    } else if let Some(r) = t.strip_prefix('A') {
        Op::Add(r.parse().expect("service id"))
    } else if let Some(r) = t.strip_prefix('P') {
        let (uid, addrs) = r.split_once('/').expect("P<uid>/<addrs>");
        let addrs = addrs.split('.').filter(|s| !s.is_empty()).map(parse_addr).collect();
        Op::Publish((uid.parse().expect("uid"), addrs))
    } else {
        panic!("bad op {t}")
    }
}

fn raw_op(op: &Op) -> String {
    match op {
        Op::Clear => "C".into(),
        Op::Add(x) => format!("A{x}"),
        Op::Publish((u, a)) => format!(
            "P{u}/{}",
            a.iter().map(|(r, k)| format!("{}{k}", if *r { "r" } else { "i" })).collect::<Vec<_>>().join(".")
        ),
    }
}

fn coq_data(d: &Data) -> String {
    format!("({}, {})", d.0, coq_list(d.1.iter(), |(r, k)| format!("({}, {k})", coq_bool(*r))))
}

fn coq_op(op: &Op) -> String {
    match op {
        Op::Clear => "C30.Clear".into(),
        Op::Add(x) => format!("C30.Add {x}"),
        Op::Publish(d) => format!("C30.Publish {}", coq_data(d)),
    }
}

// ---------- the scheduler ----------
fn own_tid() -> u64 {
    std::fs::read_link("/proc/thread-self")
        .ok()
        .and_then(|p| p.file_name().and_then(|f| f.to_str().and_then(|s| s.parse().ok())))
        .unwrap_or(0)
}

/// true if the OS reports the thread as sleeping (blocked), e.g. in a futex wait
fn thread_sleeps(tid: u64) -> bool {
    if tid == 0 {
        return false;
    }
    match std::fs::read_to_string(format!("/proc/self/task/{tid}/stat")) {
        Ok(s) => match s.rfind(')') {
            Some(i) => matches!(s[i + 1..].trim_start().chars().next(), Some('S') | Some('D')),
            None => false,
        },
        Err(_) => false,
    }
}

#[derive(Clone, Copy, PartialEq, Debug)]
enum Th {
    Fresh,
    /// parked at a pause point with this ticket; `terminal` = it cannot park again
    Parked { ticket: u64, terminal: bool },
    /// released, seen neither parking nor returning yet
    Pending { terminal: bool },
    Finished,
}

struct Case {
    services: AddressLookupServices,
    log: Arc<Mutex<Vec<(u64, Data)>>>,
    ops: Vec<Op>,
    th: Vec<Th>,
    done: Vec<Arc<AtomicBool>>,
    /// OS thread id of each call's thread (0 = not running yet)
    tid: Vec<Arc<AtomicU64>>,
    handles: Vec<std::thread::JoinHandle<()>>,
    events: Vec<String>,
}

enum Seen {
    Parked(u64, &'static str),
    Returned,
    Nothing,
}

impl Case {
    fn held_tickets(&self) -> Vec<u64> {
        self.th.iter().filter_map(|t| if let Th::Parked { ticket, .. } = t { Some(*ticket) } else { None }).collect()
    }

    /// waits until call `t` parks somewhere or returns
    fn wait_for(&self, t: usize, terminal: bool, timeout: Duration) -> Seen {
        let held = self.held_tickets();
        let deadline = Instant::now() + timeout;
        let hard = Instant::now() + Duration::from_millis(PROGRESS_MS);
        loop {
            if self.done[t].load(Ordering::SeqCst) {
                return Seen::Returned;
            }
            if !terminal {
                for p in POINTS {
                    for tk in sched::parked_at(p) {
                        if !held.contains(&tk) {
                            return Seen::Parked(tk, p);
                        }
                    }
                }
            }
            if Instant::now() >= deadline {
                // "waits for a lock" only if the OS says the thread sleeps; a thread that is
                // merely slow (runnable, or not started yet) gets more time
                if thread_sleeps(self.tid[t].load(Ordering::SeqCst)) || Instant::now() >= hard {
                    return Seen::Nothing;
                }
                std::thread::sleep(Duration::from_millis(5));
                continue;
            }
            std::thread::sleep(Duration::from_micros(100));
        }
    }

    fn spawn(&mut self, t: usize) {
        let services = self.services.clone();
        let op = self.ops[t].clone();
        let log = self.log.clone();
        let done = self.done[t].clone();
        let tid = self.tid[t].clone();
        let h = std::thread::spawn(move || {
            tid.store(own_tid(), Ordering::SeqCst);
            let _ = catch(|| match op {
                Op::Publish(d) => {
                    IN_PUBLISH.with(|c| c.set(true));
                    hook::publish(&services, &to_endpoint_data(&d));
                }
                Op::Add(id) => services.add(Recorder { id, log }),
                Op::Clear => services.clear(),
            });
            done.store(true, Ordering::SeqCst);
        });
        self.handles.push(h);
    }

    /// Follows call `t` after it was released (or unblocked) until it parks at a real
    /// pause point, returns, or `first` elapses without either.
    fn follow(&mut self, t: usize, mut terminal: bool, first: Duration) -> bool {
        let mut timeout = first;
        loop {
            match self.wait_for(t, terminal, timeout) {
                Seen::Returned => {
                    self.th[t] = Th::Finished;
                    return true;
                }
                Seen::Parked(tk, p) => {
                    if p == P_AFTER_SERVICES {
                        // no shared-memory step between this point and the next one
                        sched::release(tk);
                        terminal = false;
                        timeout = Duration::from_millis(PROGRESS_MS);
                        continue;
                    }
                    let terminal = p == P_BEFORE_STORE || p == P_AFTER_READ;
                    self.th[t] = Th::Parked { ticket: tk, terminal };
                    return true;
                }
                Seen::Nothing => {
                    self.th[t] = Th::Pending { terminal };
                    return false;
                }
            }
        }
    }

    /// releases call `t` and records what was observed
    fn go(&mut self, t: usize) {
        let terminal = match self.th[t] {
            Th::Fresh => {
                self.spawn(t);
                matches!(self.ops[t], Op::Clear)
            }
            Th::Parked { ticket, terminal } => {
                sched::release(ticket);
                terminal
            }
            _ => unreachable!(),
        };
        self.th[t] = Th::Pending { terminal };
        let progressed = self.follow(t, terminal, Duration::from_millis(BLOCK_MS));
        self.events.push(format!("C30.{} {t}", if progressed { "Go" } else { "Blk" }));
        if self.th[t] == Th::Finished {
            self.poll_pending();
        }
    }

    /// after a call returned (locks are released at the end of a call): did a waiting call get on?
    fn poll_pending(&mut self) {
        loop {
            let mut any = false;
            for u in 0..self.th.len() {
                if let Th::Pending { terminal } = self.th[u] {
                    if self.follow(u, terminal, Duration::from_millis(BLOCK_MS)) {
                        self.events.push(format!("C30.Go {u}"));
                        if self.th[u] == Th::Finished {
                            any = true;
                        }
                    }
                }
            }
            if !any {
                return;
            }
        }
    }

    fn candidates(&self) -> Vec<usize> {
        let pending = self.th.iter().any(|t| matches!(t, Th::Pending { .. }));
        (0..self.th.len())
            .filter(|&t| match self.th[t] {
                Th::Fresh => !pending,
                Th::Parked { .. } => true,
                _ => false,
            })
            .collect()
    }
}

fn run_case(filter: u64, ops: Vec<Op>, choices: &[usize]) -> (Vec<String>, Option<(Vec<(u64, Data)>, Vec<u64>, Option<Data>)>) {
    sched::reset();
    for p in POINTS {
        sched::arm(p);
    }
    let services = AddressLookupServices::default();
    match filter {
        1 => services.set_addr_filter(AddrFilter::unfiltered()),
        2 => services.set_addr_filter(AddrFilter::relay_only()),
        3 => services.set_addr_filter(AddrFilter::ip_only()),
        _ => {}
    }
    let n = ops.len();
    let mut case = Case {
        services,
        log: Arc::new(Mutex::new(Vec::new())),
        ops,
        th: vec![Th::Fresh; n],
        done: (0..n).map(|_| Arc::new(AtomicBool::new(false))).collect(),
        tid: (0..n).map(|_| Arc::new(AtomicU64::new(0))).collect(),
        handles: Vec::new(),
        events: Vec::new(),
    };
    for &c in choices {
        if c < n && case.candidates().contains(&c) {
            case.go(c);
        }
    }
    // drain: lowest releasable call first
    let mut stuck = false;
    loop {
        let cand = case.candidates();
        match cand.first() {
            Some(&t) => case.go(t),
            None => {
                if case.th.iter().all(|t| *t == Th::Finished) {
                    break;
                }
                // only waiting calls are left: give them one long chance, else it is a deadlock
                let before = case.events.len();
                for u in 0..n {
                    if let Th::Pending { terminal } = case.th[u] {
                        if case.follow(u, terminal, Duration::from_millis(2000)) {
                            case.events.push(format!("C30.Go {u}"));
                        }
                    }
                }
                if case.events.len() == before {
                    stuck = true;
                    break;
                }
            }
        }
    }
    let events = case.events.clone();
    if stuck {
        sched::reset();
        // leak the stuck threads; the process ends with the run
        return (events, None);
    }
    for p in POINTS {
        sched::disarm(p);
    }
    for h in case.handles.drain(..) {
        let _ = h.join();
    }
    // end-state observation through the public API
    let log = case.log.lock().unwrap().clone();
    let probe_log = Arc::new(Mutex::new(Vec::new()));
    case.services.add(Recorder { id: u64::MAX, log: probe_log.clone() });
    let last = probe_log.lock().unwrap().first().map(|(_, d)| d.clone());
    case.log.lock().unwrap().clear();
    probe_log.lock().unwrap().clear();
    // a marker publish reaches the registered recorders in vector order (the probe,
    // last in the vector, writes to its own log)
    hook::publish(&case.services, &to_endpoint_data(&(999_999, vec![])));
    let order: Vec<u64> = case.log.lock().unwrap().iter().map(|(id, _)| *id).collect();
    sched::reset();
    (events, Some((log, order, last)))
}

fn run(raw: &str) -> (String, String) {
    let t: Vec<&str> = raw.split_whitespace().collect();
    let filter: u64 = t[0].parse().expect("filter");
    let ops: Vec<Op> = t[1].split(';').filter(|s| !s.is_empty()).map(parse_op).collect();
    let choices: Vec<usize> = t.get(2).map_or(vec![], |s| s.split(',').filter(|x| !x.is_empty()).map(|x| x.parse().expect("choice")).collect());
    let (events, obs) = run_case(filter, ops.clone(), &choices);
    let coq_in = format!("({filter}, {}, [{}])", coq_list(ops.iter(), coq_op), events.join("; "));
    let coq_out = match obs {
        None => "None".to_string(),
        Some((log, order, last)) => format!(
            "(Some ({}, {}, {}))",
            coq_list(log.iter(), |(id, d)| format!("({id}, {})", coq_data(d))),
            coq_list(order.iter(), |x| x.to_string()),
            coq_opt(last.as_ref(), coq_data)
        ),
    };
    (coq_in, coq_out)
}

// ---------- generator ----------
fn gen_data(rng: &mut Rng, uid: u64) -> Data {
    let n = rng.below(4);
    let mut addrs: Vec<Addr> = Vec::new();
    for _ in 0..n {
        let a = (rng.chance(1, 2), rng.range(1, 5));
        if !addrs.contains(&a) {
            addrs.push(a);
        }
    }
    (uid, addrs)
}

/// k-th interleaving (in lexicographic order) of the multiset with `counts[i]` copies of `i`
fn nth_interleaving(counts: &[usize], mut k: u128) -> Option<Vec<usize>> {
    fn multinomial(c: &[usize]) -> u128 {
        let mut r: u128 = 1;
        let mut n = 0u128;
        for &x in c {
            for j in 1..=x as u128 {
                n += 1;
                r = r * n / j;
            }
        }
        r
    }
    let mut c = counts.to_vec();
    if k >= multinomial(&c) {
        return None;
    }
    let total: usize = c.iter().sum();
    let mut out = Vec::with_capacity(total);
    for _ in 0..total {
        for i in 0..c.len() {
            if c[i] == 0 {
                continue;
            }
            c[i] -= 1;
            let m = multinomial(&c);
            if k < m {
                out.push(i);
                break;
            }
            k -= m;
            c[i] += 1;
        }
    }
    Some(out)
}

fn generate(rng: &mut Rng, i: u64, _n: u64) -> String {
    // 1. the designed scenario, exhaustively: one registered service holding d0, then
    //    publish d1 || publish d2 || add s  — every order of releasing the calls
    //    (publish: 3 releases, add: 2), 560 orders; the first 140 cases walk through them
    //    with stride 4 starting at a seed-dependent offset.
    if i < 140 {
        let k = (i * 4 + rng.below(4)) as u128;
        if let Some(il) = nth_interleaving(&[3, 3, 2], k) {
            let sched: Vec<String> = [0usize, 0, 1, 1, 1]
                .iter()
                .map(|x| x.to_string())
                .chain(il.iter().map(|x| (x + 2).to_string()))
                .collect();
            return format!("{} A1;P10/r1.i1;P11/r2.i2;P12/r3;A2 {}", rng.below(4), sched.join(","));
        }
    }
    // 2. random programs and schedules
    let nops = rng.range(1, 6) as usize;
    let mut ops = Vec::new();
    let mut next_svc = 1;
    for j in 0..nops {
        ops.push(match rng.below(10) {
            0..=4 => Op::Publish(gen_data(rng, 10 + j as u64)),
            5..=8 => {
                next_svc += 1;
                Op::Add(next_svc - 1)
            }
            _ => Op::Clear,
        });
    }
    let len = rng.range(0, 14) as usize;
    let sequentialish = rng.chance(1, 4);
    let mut choices = Vec::new();
    for _ in 0..len {
        let c = rng.below(nops as u64) as usize;
        let rep = if sequentialish { 6 } else { 1 };
        for _ in 0..rep {
            choices.push(c.to_string());
        }
    }
    format!(
        "{} {} {}",
        rng.below(4),
        ops.iter().map(raw_op).collect::<Vec<_>>().join(";"),
        choices.join(",")
    )
}

// ---------- main: `run` fans out over worker processes (the schedule controller is
// process-global, so one case at a time per process) ----------
fn main() {
    silence_panics();
    let args: Vec<String> = std::env::args().collect();
    match args.get(1).map(|s| s.as_str()) {
        Some("run") => {
            let lines: Vec<String> = std::io::stdin()
                .lock()
                .lines()
                .map(|l| l.unwrap().trim().to_string())
                .filter(|l| !l.is_empty() && !l.starts_with('#'))
                .collect();
            let workers: usize = std::env::var("C30_WORKERS").ok().and_then(|s| s.parse().ok()).unwrap_or(8);
            let workers = workers.max(1).min(lines.len().max(1));
            let exe = std::env::current_exe().unwrap();
            let mut children = Vec::new();
            for w in 0..workers {
                let mine: Vec<&String> = lines.iter().skip(w).step_by(workers).collect();
                let mut ch = std::process::Command::new(&exe)
                    .arg("run1")
                    .stdin(std::process::Stdio::piped())
                    .stdout(std::process::Stdio::piped())
                    .spawn()
                    .expect("spawn worker");
                {
                    let mut si = ch.stdin.take().unwrap();
                    for l in &mine {
                        writeln!(si, "{l}").unwrap();
                    }
                }
                children.push(ch);
            }
            let mut outs: Vec<Vec<String>> = Vec::new();
            for ch in children {
                let o = ch.wait_with_output().expect("worker");
                outs.push(String::from_utf8_lossy(&o.stdout).lines().map(|s| s.to_string()).collect());
            }
            let out = std::io::stdout();
            let mut out = out.lock();
            for (k, _) in lines.iter().enumerate() {
                if let Some(l) = outs[k % workers].get(k / workers) {
                    writeln!(out, "{l}").unwrap();
                }
            }
        }
        Some("run1") => {
            let out = std::io::stdout();
            for line in std::io::stdin().lock().lines() {
                let line = line.unwrap();
                let line = line.trim();
                if line.is_empty() || line.starts_with('#') {
                    continue;
                }
                let (i, o) = run(line);
                let mut out = out.lock();
                writeln!(out, "{line}\t{i}\t{o}").unwrap();
                out.flush().unwrap();
            }
        }
        _ => main_with(generate, run),
    }
}
