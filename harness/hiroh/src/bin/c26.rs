//! C26 — `HomeRelayWatch` under forced schedules, and the real relay actors publishing into it.
//!
//! Two kinds of raw case.
//!
//! ACTOR LEVEL: `A <act>,<act>,...` — a real `RelayActor` (`on_network_change`,
//! `set_home_relay`, `active_relay_handle`) with the real `ActiveRelayActor`s it starts, each
//! dialing a local relay server, all publishing into one `HomeRelayWatch`. The connection
//! actors stop before every status report and before handling a `SetHomeRelay` inbox message
//! (pause points in actor.rs); the script decides what happens next:
//!   `H<u>` / `H-`  the RelayActor handles NetworkChange with preferred relay <u> / none
//!   `S<u>`         `active_relay_handle(<u>)` (a connection to relay <u> is wanted)
//!   `R<u>`         let relay <u>'s connection actor take its next step (status report or inbox
//!                  message, whichever it is stopped at); skipped if it is not stopped anywhere
//!   `K<u>` / `U<u>`  stop / restart relay server <u> (environment only, not an event)
//! The events observed (which report, which message, in which loop) and the watchable after
//! each of them go to the model.
//!
//! LOCK LEVEL: `<op>;<op>;... <choice>,<choice>,...`
//!   op     = `H<u>` (RelayActor::on_network_change choosing relay <u> as home) | `H-` (no home relay)
//!          | `S<u>:<c>` (the ActiveRelayActor of relay <u> calls set_status(&u, c);
//!                        c: 0 Connecting, 1 Connected, 2 Disconnected, 3 Disconnected with error)
//!   choice = index of the call to release next (ignored when that call cannot be released now).
//!
//! `set_status` is the real function (through the guarded accessors in
//! `iroh::verif_hooks::c26`), stopped at `relay_actor.home_watch.between_get_set`.
//! `on_network_change` needs a complete relay actor with network access, so its
//! get / compare / set-or-clear sequence (actor.rs l.1186-1211) is re-enacted here on the
//! real `HomeRelayWatch` with a pause point between the get and the write.
//! One call is released at a time and observed to reach its next pause point / return
//! (`Go t`) or to wait for the writer mutex (`Blk t`).  After every event the harness reads
//! the watchable and the relay most recently chosen; that list is compared with the model's.
use std::{
    io::{BufRead, Write},
    sync::{
        Arc, Mutex,
        atomic::{AtomicBool, AtomicU64, Ordering},
    },
    time::{Duration, Instant},
};

use hcommon::*;
use iroh::{
    RelayUrl,
    verif_hooks::{c26::Watch, sched},
};

const BLOCK_MS: u64 = 120;
const PROGRESS_MS: u64 = 20_000;
const P_BETWEEN: &str = "relay_actor.home_watch.between_get_set";
const P_AFTER_GET: &str = "c26.on_network_change.after_get";
const POINTS: [&str; 2] = [P_BETWEEN, P_AFTER_GET];

#[derive(Clone, Debug)]
enum Op {
    Choose(Option<u64>),
    SetStatus(u64, u8),
}

fn url(k: u64) -> RelayUrl {
    format!("https://h{k}.test").parse().unwrap()
}

fn url_id(u: &RelayUrl) -> u64 {
    u.host_str()
        .and_then(|h| h.strip_prefix('h'))
        .and_then(|h| h.strip_suffix(".test"))
        .and_then(|s| s.parse().ok())
        .unwrap_or(u64::MAX)
}

fn parse_op(t: &str) -> Op {
    if t == "H-" {
        Op::Choose(None)
    } else if let Some(r) = t.strip_prefix('H') {
        Op::Choose(Some(r.parse().expect("relay id")))
    } else if let Some(r) = t.strip_prefix('S') {
        let (u, c) = r.split_once(':').expect("S<u>:<c>");
        Op::SetStatus(u.parse().expect("relay id"), c.parse().expect("state"))
    } else {
        panic!("bad op {t}")
    }
}

fn raw_op(op: &Op) -> String {
    match op {
        Op::Choose(None) => "H-".into(),
        Op::Choose(Some(u)) => format!("H{u}"),
        Op::SetStatus(u, c) => format!("S{u}:{c}"),
    }
}

fn coq_op(op: &Op) -> String {
    match op {
        Op::Choose(p) => format!("C26.Choose {}", coq_opt(*p, |u| u.to_string())),
        Op::SetStatus(u, c) => format!("C26.SetStatus {u} {c}"),
    }
}

/// `RelayActor::on_network_change` (actor.rs l.1186-1211) on the watchable alone
fn on_network_change(w: &Watch, chosen: &Mutex<Option<u64>>, pref: Option<u64>) {
    let prev = w.get();
    let prev_url = prev.as_ref().map(|(u, _)| url_id(u));
    sched::pause_sync(P_AFTER_GET);
    if pref == prev_url {
        return;
    }
    if let Some(u) = pref {
        w.set(url(u), 0);
    } else {
        w.clear();
    }
    *chosen.lock().unwrap() = pref;
}

// ---------- the scheduler ----------
fn own_tid() -> u64 {
    std::fs::read_link("/proc/thread-self")
        .ok()
        .and_then(|p| p.file_name().and_then(|f| f.to_str().and_then(|s| s.parse().ok())))
        .unwrap_or(0)
}

/// true if the OS reports the thread as sleeping (blocked), e.g. in a futex wait
fn thread_sleeps(tid: u64) -> bool {
    if tid == 0 {
        return false;
    }
    match std::fs::read_to_string(format!("/proc/self/task/{tid}/stat")) {
        Ok(s) => match s.rfind(')') {
            Some(i) => matches!(s[i + 1..].trim_start().chars().next(), Some('S') | Some('D')),
            None => false,
        },
        Err(_) => false,
    }
}


#[derive(Clone, Copy, PartialEq, Debug)]
enum Th {
    Fresh,
    /// parked at a pause point; `holds` = at `between_get_set`, i.e. inside set_status
    Parked { ticket: u64, holds: bool },
    /// released, seen neither parking nor returning yet
    Pending { terminal: bool },
    Finished,
}

struct Case {
    watch: Watch,
    chosen: Arc<Mutex<Option<u64>>>,
    ops: Vec<Op>,
    th: Vec<Th>,
    done: Vec<Arc<AtomicBool>>,
    tid: Vec<Arc<AtomicU64>>,
    handles: Vec<std::thread::JoinHandle<()>>,
    events: Vec<String>,
    snaps: Snaps,
}

enum Seen {
    Parked(u64, &'static str),
    Returned,
    Nothing,
}

impl Case {
    fn held_tickets(&self) -> Vec<u64> {
        self.th.iter().filter_map(|t| if let Th::Parked { ticket, .. } = t { Some(*ticket) } else { None }).collect()
    }

    fn wait_for(&self, t: usize, terminal: bool, timeout: Duration) -> Seen {
        let held = self.held_tickets();
        let deadline = Instant::now() + timeout;
        let hard = Instant::now() + Duration::from_millis(PROGRESS_MS);
        loop {
            if self.done[t].load(Ordering::SeqCst) {
                return Seen::Returned;
            }
            if !terminal {
                for p in POINTS {
                    for tk in sched::parked_at(p) {
                        if !held.contains(&tk) {
                            return Seen::Parked(tk, p);
                        }
                    }
                }
            }
            if Instant::now() >= deadline {
                if thread_sleeps(self.tid[t].load(Ordering::SeqCst)) || Instant::now() >= hard {
                    return Seen::Nothing;
                }
                std::thread::sleep(Duration::from_millis(5));
                continue;
            }
            std::thread::sleep(Duration::from_micros(100));
        }
    }

    fn spawn(&mut self, t: usize) {
        let w = self.watch.clone();
        let chosen = self.chosen.clone();
        let op = self.ops[t].clone();
        let done = self.done[t].clone();
        let tid = self.tid[t].clone();
        let h = std::thread::spawn(move || {
            tid.store(own_tid(), Ordering::SeqCst);
            let _ = catch(|| match op {
                Op::Choose(pref) => on_network_change(&w, &chosen, pref),
                Op::SetStatus(u, c) => w.set_status(&url(u), c),
            });
            done.store(true, Ordering::SeqCst);
        });
        self.handles.push(h);
    }

    fn follow(&mut self, t: usize, terminal: bool, first: Duration) -> bool {
        match self.wait_for(t, terminal, first) {
            Seen::Returned => {
                self.th[t] = Th::Finished;
                true
            }
            Seen::Parked(tk, p) => {
                self.th[t] = Th::Parked { ticket: tk, holds: p == P_BETWEEN };
                true
            }
            Seen::Nothing => {
                self.th[t] = Th::Pending { terminal };
                false
            }
        }
    }

    /// observation after an event of call `t`
    fn snap_after(&mut self, t: usize) {
        let waiting = self.th.iter().any(|x| matches!(x, Th::Pending { .. }));
        if self.th[t] == Th::Finished && waiting {
            // the mutex was released while another call waits for it: that call runs on at
            // once, a read of the watchable here would race with it
            self.snaps.push(None);
        } else {
            self.snap();
        }
    }

    fn snap(&mut self) {
        let w = self.watch.get().map(|(u, c)| (url_id(&u), c));
        let c = *self.chosen.lock().unwrap();
        self.snaps.push(Some((w, c)));
    }

    fn go(&mut self, t: usize) {
        // every call has exactly one pause point: once released from it, it can only return
        let terminal = match self.th[t] {
            Th::Fresh => {
                self.spawn(t);
                false
            }
            Th::Parked { ticket, .. } => {
                sched::release(ticket);
                true
            }
            _ => unreachable!(),
        };
        self.th[t] = Th::Pending { terminal };
        let progressed = self.follow(t, terminal, Duration::from_millis(BLOCK_MS));
        self.events.push(format!("C26.{} {t}", if progressed { "Go" } else { "Blk" }));
        self.snap_after(t);
        if self.th[t] == Th::Finished {
            self.poll_pending();
        }
    }

    /// after a call returned (the mutex is released at the end of a call): did a waiting call get on?
    fn poll_pending(&mut self) {
        loop {
            let mut any = false;
            for u in 0..self.th.len() {
                if let Th::Pending { terminal } = self.th[u] {
                    if self.follow(u, terminal, Duration::from_millis(BLOCK_MS)) {
                        self.events.push(format!("C26.Go {u}"));
                        self.snap_after(u);
                        if self.th[u] == Th::Finished {
                            any = true;
                        }
                    }
                }
            }
            if !any {
                return;
            }
        }
    }

    fn candidates(&self) -> Vec<usize> {
        let pending = self.th.iter().any(|t| matches!(t, Th::Pending { .. }));
        (0..self.th.len())
            .filter(|&t| match self.th[t] {
                Th::Fresh => !pending,
                // while a call waits for the mutex only its holder is released: two waiting
                // calls would be woken in an order the harness cannot observe
                Th::Parked { holds, .. } => !pending || holds,
                _ => false,
            })
            .collect()
    }
}

type Snaps = Vec<Option<(Option<(u64, u8)>, Option<u64>)>>;

fn run_case(ops: Vec<Op>, choices: &[usize]) -> (Vec<String>, Option<Snaps>) {
    sched::reset();
    for p in POINTS {
        sched::arm(p);
    }
    let n = ops.len();
    let mut case = Case {
        watch: Watch::default(),
        chosen: Arc::new(Mutex::new(None)),
        ops,
        th: vec![Th::Fresh; n],
        done: (0..n).map(|_| Arc::new(AtomicBool::new(false))).collect(),
        tid: (0..n).map(|_| Arc::new(AtomicU64::new(0))).collect(),
        handles: Vec::new(),
        events: Vec::new(),
        snaps: Vec::new(),
    };
    for &c in choices {
        if c < n && case.candidates().contains(&c) {
            case.go(c);
        }
    }
    let mut stuck = false;
    loop {
        let cand = case.candidates();
        match cand.first() {
            Some(&t) => case.go(t),
            None => {
                if case.th.iter().all(|t| *t == Th::Finished) {
                    break;
                }
                let before = case.events.len();
                for u in 0..n {
                    if let Th::Pending { terminal } = case.th[u] {
                        if case.follow(u, terminal, Duration::from_millis(2000)) {
                            case.events.push(format!("C26.Go {u}"));
                            case.snap_after(u);
                        }
                    }
                }
                if case.events.len() == before {
                    stuck = true;
                    break;
                }
            }
        }
    }
    let events = case.events.clone();
    sched::reset();
    if stuck {
        return (events, None);
    }
    for h in case.handles.drain(..) {
        let _ = h.join();
    }
    (events, Some(case.snaps.clone()))
}

fn run(raw: &str) -> (String, String) {
    let t: Vec<&str> = raw.split_whitespace().collect();
    if t[0] == "A" {
        return actor::run(t.get(1).copied().unwrap_or(""));
    }
    let ops: Vec<Op> = t[0].split(';').filter(|s| !s.is_empty()).map(parse_op).collect();
    let choices: Vec<usize> =
        t.get(1).map_or(vec![], |s| s.split(',').filter(|x| !x.is_empty()).map(|x| x.parse().expect("choice")).collect());
    let (events, snaps) = run_case(ops.clone(), &choices);
    let coq_in = format!("(C26.ILow ({}, [{}]))", coq_list(ops.iter(), coq_op), events.join("; "));
    let coq_out = match snaps {
        None => "None".to_string(),
        Some(l) => format!(
            "(Some {})",
            coq_list(l.iter(), |x| coq_opt(*x, |(w, c)| format!(
                "({}, {})",
                coq_opt(w, |(u, s)| format!("({u}, {s})")),
                coq_opt(c, |u| u.to_string())
            )))
        ),
    };
    (coq_in, coq_out)
}

// ---------- generator ----------
/// k-th interleaving (lexicographic) of the multiset with `counts[i]` copies of `i`
fn nth_interleaving(counts: &[usize], mut k: u128) -> Option<Vec<usize>> {
    fn multinomial(c: &[usize]) -> u128 {
        let mut r: u128 = 1;
        let mut n = 0u128;
        for &x in c {
            for j in 1..=x as u128 {
                n += 1;
                r = r * n / j;
            }
        }
        r
    }
    let mut c = counts.to_vec();
    if k >= multinomial(&c) {
        return None;
    }
    let total: usize = c.iter().sum();
    let mut out = Vec::with_capacity(total);
    for _ in 0..total {
        for i in 0..c.len() {
            if c[i] == 0 {
                continue;
            }
            c[i] -= 1;
            let m = multinomial(&c);
            if k < m {
                out.push(i);
                break;
            }
            k -= m;
            c[i] += 1;
        }
    }
    Some(out)
}

fn generate(rng: &mut Rng, i: u64, _n: u64) -> String {
    // 1. the designed scenario, exhaustively: relay 1 is home; its actor reports a status
    //    while the relay actor moves home to relay 2 and relay 2's actor reports Connected:
    //    H1 ; ( S1:c || H2 || S2:1 ), all 90 release orders (2 releases each) x 4 status kinds
    //    would be 360; take every order once with c cycling through the status kinds.
    if i < 90 {
        let il = nth_interleaving(&[2, 2, 2], i as u128).unwrap();
        let sched: Vec<String> =
            ["0".to_string(), "0".to_string()].into_iter().chain(il.iter().map(|x| (x + 1).to_string())).collect();
        return format!("H1;S1:{};H2;S2:1 {}", (i + rng.below(4)) % 4, sched.join(","));
    }
    // 2. actor level: about every second case (not by index parity: `run` deals the cases out
    //    to its worker processes round-robin)
    if rng.chance(1, 2) {
        return actor::generate(rng);
    }
    // 3. random programs
    let nops = rng.range(1, 7) as usize;
    let mut ops = Vec::new();
    for _ in 0..nops {
        ops.push(match rng.below(10) {
            0..=3 => Op::Choose(if rng.chance(1, 6) { None } else { Some(rng.range(1, 3)) }),
            _ => Op::SetStatus(rng.range(1, 3), rng.below(4) as u8),
        });
    }
    let len = rng.range(0, 14) as usize;
    let sequentialish = rng.chance(1, 4);
    let mut choices = Vec::new();
    for _ in 0..len {
        let c = rng.below(nops as u64) as usize;
        for _ in 0..(if sequentialish { 2 } else { 1 }) {
            choices.push(c.to_string());
        }
    }
    format!("{} {}", ops.iter().map(raw_op).collect::<Vec<_>>().join(";"), choices.join(","))
}

// ---------- actor level ----------
mod actor {
    use std::{
        collections::BTreeMap,
        net::Ipv4Addr,
        time::{Duration, Instant},
    };

    use hcommon::*;
    use iroh::{
        RelayUrl, SecretKey,
        verif_hooks::{
            c26::{Actors, Watch},
            sched,
        },
    };
    use iroh_relay::server::{CertConfig, RelayConfig as RelayServerConfig, Server, ServerConfig, TlsConfig};

    /// how long `R<u>` waits for actor <u> to stop somewhere (dialing, backoff)
    const PARK_WAIT: Duration = Duration::from_millis(1200);
    const SYNC_WAIT: Duration = Duration::from_millis(5000);

    #[derive(Clone, Copy, Debug, PartialEq)]
    enum Kind {
        /// before a status report: 0 Connecting, 1 Connected, 3 Disconnected (with error)
        Report(u8),
        /// before handling SetHomeRelay(b): in run_connected?, b
        SetHome(bool, bool),
    }

    const KINDS: [(&str, Kind); 7] = [
        ("report:{}:connecting", Kind::Report(0)),
        ("report:{}:connected", Kind::Report(1)),
        ("report:{}:disconnected", Kind::Report(3)),
        ("set_home:{}:dialing:true", Kind::SetHome(false, true)),
        ("set_home:{}:dialing:false", Kind::SetHome(false, false)),
        ("set_home:{}:connected:true", Kind::SetHome(true, true)),
        ("set_home:{}:connected:false", Kind::SetHome(true, false)),
    ];

    fn point(pat: &str, url: &RelayUrl) -> String {
        format!("relay_actor.active.{}", pat.replace("{}", &url.to_string()))
    }

    async fn spawn_relay(port: u16) -> Option<Server> {
        let (_certs, server_config) = iroh_relay::server::testing::self_signed_tls_certs_and_config();
        let tls = TlsConfig::new((Ipv4Addr::LOCALHOST, port), CertConfig::Manual { server_config });
        let mut relay = RelayServerConfig::new((Ipv4Addr::LOCALHOST, 0));
        relay.tls = Some(tls);
        relay.key_cache_capacity = Some(64);
        let mut config = ServerConfig::default();
        config.relay = Some(relay);
        Server::spawn(config).await.ok()
    }

    struct Relay {
        url: RelayUrl,
        port: u16,
        server: Option<Server>,
        /// connection phase as far as the events released so far tell (only used to cut waits short)
        connected: bool,
    }

    struct Case {
        watch: Watch,
        actors: Actors,
        relays: BTreeMap<u64, Relay>,
        chosen: Option<u64>,
        events: Vec<String>,
        snaps: Vec<(Option<(u64, u8)>, Option<u64>)>,
    }

    impl Case {
        fn id_of(&self, u: &RelayUrl) -> u64 {
            self.relays.iter().find(|(_, r)| &r.url == u).map(|(k, _)| *k).unwrap_or(u64::MAX)
        }

        fn snap(&mut self) {
            let w = self.watch.get().map(|(u, c)| (self.id_of(&u), c));
            self.snaps.push((w, self.chosen));
        }

        fn parked(&self, u: u64) -> Option<(u64, Kind)> {
            let url = &self.relays[&u].url;
            for (pat, kind) in KINDS {
                if let Some(t) = sched::parked_at(&point(pat, url)).first() {
                    return Some((*t, kind));
                }
            }
            None
        }

        fn exists(&self, u: u64) -> Option<usize> {
            let url = &self.relays[&u].url;
            self.actors.active_relays().into_iter().find(|(x, _)| x == url).map(|(_, q)| q)
        }

        async fn wait_parked(&self, u: u64, wait: Duration) -> Option<(u64, Kind)> {
            let start = Instant::now();
            loop {
                if let Some(p) = self.parked(u) {
                    return Some(p);
                }
                let queued = self.exists(u)?;
                let el = start.elapsed();
                // connected, nothing in its inbox: it has nothing to do
                if self.relays[&u].connected && queued == 0 && el >= Duration::from_millis(60) {
                    return None;
                }
                if el >= wait {
                    return None;
                }
                tokio::time::sleep(Duration::from_millis(2)).await;
            }
        }

        /// lets actor `u` take the step it is stopped before; returns false if it is not stopped
        async fn release(&mut self, u: u64, wait: Duration) -> bool {
            let Some((ticket, kind)) = self.wait_parked(u, wait).await else {
                return false;
            };
            sched::release(ticket);
            // the step is over when the actor is back at the top of one of its loops (it
            // answers the priority probe) or stopped at its next pause point
            let url = self.relays[&u].url.clone();
            let mut probe = self.actors.probe(&url);
            let start = Instant::now();
            loop {
                if let Some((t2, _)) = self.parked(u) {
                    if t2 != ticket {
                        break;
                    }
                }
                if let Some(rx) = probe.as_mut() {
                    match rx.try_recv() {
                        Ok(_) => break,
                        Err(tokio::sync::oneshot::error::TryRecvError::Closed) => probe = None,
                        Err(_) => {}
                    }
                }
                if start.elapsed() >= SYNC_WAIT {
                    self.events.push("C26.AReport 0 9 (* step not observed to finish *)".into());
                    break;
                }
                tokio::time::sleep(Duration::from_millis(1)).await;
            }
            let r = self.relays.get_mut(&u).unwrap();
            match kind {
                Kind::Report(c) => {
                    r.connected = c == 1;
                    self.events.push(format!("C26.AReport {u} {c}"));
                }
                Kind::SetHome(conn, b) => {
                    self.events.push(format!("C26.AHandle {u} {} {}", coq_bool(conn), coq_bool(b)));
                }
            }
            self.snap();
            true
        }
    }

    async fn run_script(acts: Vec<(char, Option<u64>)>) -> (Vec<String>, Vec<(Option<(u64, u8)>, Option<u64>)>) {
        sched::reset();
        let mut relays = BTreeMap::new();
        for (_, u) in &acts {
            if let Some(u) = u {
                if !relays.contains_key(u) {
                    let server = spawn_relay(0).await.expect("relay server");
                    let addr = server.https_addr().expect("https");
                    let url: RelayUrl = format!("https://{addr}").parse().unwrap();
                    relays.insert(*u, Relay { url, port: addr.port(), server: Some(server), connected: false });
                }
            }
        }
        for r in relays.values() {
            for (pat, _) in KINDS {
                sched::arm(&point(pat, &r.url));
            }
        }
        let watch = Watch::default();
        let tls = iroh_relay::tls::CaTlsConfig::insecure_skip_verify()
            .client_config(iroh_relay::tls::default_provider())
            .expect("tls config");
        let actors = Actors::new(&watch, SecretKey::from_bytes(&[0x26; 32]), tls);
        let mut case = Case { watch, actors, relays, chosen: None, events: vec![], snaps: vec![] };
        for (a, u) in acts {
            match (a, u) {
                ('H', pref) => {
                    let url = pref.map(|u| case.relays[&u].url.clone());
                    let done = tokio::time::timeout(SYNC_WAIT, case.actors.network_change(url)).await;
                    case.chosen = pref;
                    case.events.push(format!("C26.AHome {}", coq_opt(pref, |u| u.to_string())));
                    if done.is_err() {
                        case.events.push("C26.AReport 0 9 (* on_network_change did not return *)".into());
                    }
                    case.snap();
                }
                ('S', Some(u)) => {
                    let url = case.relays[&u].url.clone();
                    case.actors.ensure_active(url);
                    case.events.push(format!("C26.AStart {u}"));
                    case.snap();
                }
                ('R', Some(u)) => {
                    case.release(u, PARK_WAIT).await;
                }
                ('K', Some(u)) => {
                    if let Some(s) = case.relays.get_mut(&u).unwrap().server.take() {
                        let _ = tokio::time::timeout(Duration::from_secs(5), s.shutdown()).await;
                    }
                }
                ('U', Some(u)) => {
                    let r = case.relays.get_mut(&u).unwrap();
                    if r.server.is_none() {
                        for _ in 0..20 {
                            if let Some(s) = spawn_relay(r.port).await {
                                r.server = Some(s);
                                break;
                            }
                            tokio::time::sleep(Duration::from_millis(50)).await;
                        }
                    }
                }
                _ => panic!("bad action"),
            }
        }
        // drain: let every actor get through what is queued for it (bounded: an actor whose
        // relay is down reports Connecting / Disconnected for ever)
        let ids: Vec<u64> = case.relays.keys().copied().collect();
        for _round in 0..5 {
            let mut any = false;
            for &u in &ids {
                if case.exists(u).is_some() && case.release(u, Duration::from_millis(250)).await {
                    any = true;
                }
            }
            if !any {
                break;
            }
        }
        let out = (case.events.clone(), case.snaps.clone());
        sched::reset();
        let _ = tokio::time::timeout(Duration::from_secs(5), case.actors.close()).await;
        for r in case.relays.values_mut() {
            if let Some(s) = r.server.take() {
                let _ = tokio::time::timeout(Duration::from_secs(2), s.shutdown()).await;
            }
        }
        out
    }

    fn parse(script: &str) -> Vec<(char, Option<u64>)> {
        script
            .split(',')
            .filter(|x| !x.is_empty())
            .map(|t| {
                let (a, r) = t.split_at(1);
                let a = a.chars().next().unwrap();
                assert!("HSRKU".contains(a), "bad action {t}");
                let u = if r == "-" { None } else { Some(r.parse::<u64>().expect("relay id")) };
                assert!(u.is_some() || a == 'H', "bad action {t}");
                (a, u)
            })
            .collect()
    }

    pub fn run(script: &str) -> (String, String) {
        let acts = parse(script);
        let r = catch(move || {
            let rt = tokio::runtime::Builder::new_multi_thread().worker_threads(2).enable_all().build().unwrap();
            let out = rt.block_on(run_script(acts));
            rt.shutdown_timeout(Duration::from_secs(2));
            out
        });
        match r {
            Caught::Value((events, snaps)) => (
                format!("(C26.IAct [{}])", events.join("; ")),
                format!(
                    "(Some {})",
                    coq_list(snaps.iter(), |(w, c)| format!(
                        "(Some ({}, {}))",
                        coq_opt(*w, |(u, s)| format!("({u}, {s})")),
                        coq_opt(*c, |u| u.to_string())
                    ))
                ),
            ),
            Caught::Panicked(_) => ("(C26.IAct [])".to_string(), "None".to_string()),
        }
    }

    pub fn generate(rng: &mut Rng) -> String {
        let mut v: Vec<String> = Vec::new();
        let relay = |rng: &mut Rng| rng.range(1, 3);
        // prelude: some relays get a connection actor before any home relay is chosen
        // (datagrams sent via them), taken 0..2 steps towards Connected
        for u in 1..=3u64 {
            if rng.chance(1, 3) {
                v.push(format!("S{u}"));
                for _ in 0..rng.below(3) {
                    v.push(format!("R{u}"));
                }
            }
        }
        if rng.chance(1, 2) {
            // designed family: relay a is chosen home, takes 0..3 steps, then home moves to b
            // (or to none, or back) and the two actors' steps are interleaved at random
            let a = relay(rng);
            let b = loop {
                let b = relay(rng);
                if b != a {
                    break b;
                }
            };
            v.push(format!("H{a}"));
            for _ in 0..rng.below(4) {
                v.push(format!("R{a}"));
            }
            v.push(match rng.below(8) {
                0 => "H-".to_string(),
                _ => format!("H{b}"),
            });
            if rng.chance(1, 5) {
                v.push(format!("H{a}"));
            }
            for _ in 0..rng.range(2, 8) {
                v.push(format!("R{}", if rng.chance(1, 2) { a } else { b }));
            }
        } else {
            for _ in 0..rng.range(3, 12) {
                let u = relay(rng);
                v.push(match rng.below(20) {
                    0..=5 => format!("H{u}"),
                    6 => "H-".to_string(),
                    7 => format!("S{u}"),
                    8 => format!("K{u}"),
                    9 => format!("U{u}"),
                    _ => format!("R{u}"),
                });
            }
        }
        format!("A {}", v.join(","))
    }
}

// ---------- main: `run` fans out over worker processes (the schedule controller is process-global) ----------
fn main() {
    silence_panics();
    let args: Vec<String> = std::env::args().collect();
    match args.get(1).map(|s| s.as_str()) {
        Some("run") => {
            let lines: Vec<String> = std::io::stdin()
                .lock()
                .lines()
                .map(|l| l.unwrap().trim().to_string())
                .filter(|l| !l.is_empty() && !l.starts_with('#'))
                .collect();
            let workers: usize = std::env::var("C26_WORKERS").ok().and_then(|s| s.parse().ok()).unwrap_or(8);
            let workers = workers.max(1).min(lines.len().max(1));
            let exe = std::env::current_exe().unwrap();
            let mut children = Vec::new();
            for w in 0..workers {
                let mine: Vec<&String> = lines.iter().skip(w).step_by(workers).collect();
                let mut ch = std::process::Command::new(&exe)
                    .arg("run1")
                    .stdin(std::process::Stdio::piped())
                    .stdout(std::process::Stdio::piped())
                    .spawn()
                    .expect("spawn worker");
                {
                    let mut si = ch.stdin.take().unwrap();
                    for l in &mine {
                        writeln!(si, "{l}").unwrap();
                    }
                }
                children.push(ch);
            }
            let mut outs: Vec<Vec<String>> = Vec::new();
            for ch in children {
                let o = ch.wait_with_output().expect("worker");
                outs.push(String::from_utf8_lossy(&o.stdout).lines().map(|s| s.to_string()).collect());
            }
            let out = std::io::stdout();
            let mut out = out.lock();
            for (k, _) in lines.iter().enumerate() {
                if let Some(l) = outs[k % workers].get(k / workers) {
                    writeln!(out, "{l}").unwrap();
                }
            }
        }
        Some("run1") => {
            let out = std::io::stdout();
            for line in std::io::stdin().lock().lines() {
                let line = line.unwrap();
                let line = line.trim();
                if line.is_empty() || line.starts_with('#') {
                    continue;
                }
                let (i, o) = run(line);
                let mut out = out.lock();
                writeln!(out, "{line}\t{i}\t{o}").unwrap();
                out.flush().unwrap();
            }
        }
        _ => main_with(generate, run),
    }
}
