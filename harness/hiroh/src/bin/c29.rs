//! C29 — AddressLookupServices::resolve / AddressLookupStream::poll_next.
//!
//! raw case: `<extra_polls> <svc>;<svc>;...`   (`<extra_polls> none` = no service configured)
//!   svc = `-`                      a service whose `resolve` declines (returns None)
//!       | `<tok>,<tok>,...,<d>x`   tok = `<delay_ms>o` (an item) | `<delay_ms>e` (an error);
//!                                  the stream ends `<d>` ms after its last item.
//! Delay 0 = no timer at all (ready on first poll).  The case runs on a current-thread
//! runtime with tokio's paused clock, so the (virtual) time of every yielded element is
//! deterministic; only the order of elements that become ready at the same instant is
//! the merge's choice — it is read back from the output and handed to the model as the
//! schedule (`sched` = service index of every inner element in the order observed).
use std::time::Duration;

use hcommon::*;
use iroh::address_lookup::{AddressLookup, AddressLookupFailed, AddressLookupServices, EndpointInfo, Error, Item};
use iroh_base::{EndpointId, SecretKey};
use n0_future::{StreamExt, boxed::BoxStream};

const PROV: [&str; 8] = ["s0", "s1", "s2", "s3", "s4", "s5", "s6", "s7"];

#[derive(Clone, Debug)]
struct Script {
    /// (delay ms, is_ok)
    items: Vec<(u64, bool)>,
    end_delay: u64,
}

#[derive(Debug)]
struct Scripted {
    idx: usize,
    script: Option<Script>,
}

impl AddressLookup for Scripted {
    fn resolve(&self, endpoint_id: EndpointId) -> Option<BoxStream<Result<Item, Error>>> {
        let script = self.script.clone()?;
        let idx = self.idx;
        let st = n0_future::stream::unfold((0usize, script), move |(pos, script)| async move {
            if pos < script.items.len() {
                let (d, ok) = script.items[pos];
                if d > 0 {
                    tokio::time::sleep(Duration::from_millis(d)).await;
                }
                let r = if ok {
                    Ok(Item::new(EndpointInfo::new(endpoint_id), PROV[idx], Some(pos as u64)))
                } else {
                    Err(Error::from_err(PROV[idx], std::io::Error::other(format!("E{idx}_{pos}_"))))
                };
                Some((r, (pos + 1, script)))
            } else {
                if script.end_delay > 0 {
                    tokio::time::sleep(Duration::from_millis(script.end_delay)).await;
                }
                None
            }
        });
        Some(st.boxed())
    }
}

const DELAYS: &[u64] = &[0, 0, 0, 1, 1, 2, 3, 5, 10, 50, 1000];

fn generate(rng: &mut Rng, i: u64, _n: u64) -> String {
    let extra = rng.below(4);
    let nsvc = match rng.below(12) {
        0 => 0,
        1 | 2 => 1,
        _ => rng.range(1, 6.min(2 + i / 4)),
    };
    if nsvc == 0 {
        return format!("{extra} none");
    }
    // global flavour: 0 mixed, 1 everything errors, 2 everything immediate, 3 all decline / empty
    let flavour = rng.below(8);
    let mut svcs = Vec::new();
    for _ in 0..nsvc {
        let decline = match flavour {
            3 => rng.chance(2, 3),
            _ => rng.chance(1, 6),
        };
        if decline {
            svcs.push("-".to_string());
            continue;
        }
        let nitems = match flavour {
            3 => 0,
            _ => *rng.pick(&[0u64, 1, 1, 2, 2, 3, 4]),
        };
        let mut toks = Vec::new();
        for _ in 0..nitems {
            let d = if flavour == 2 { 0 } else { *rng.pick(DELAYS) };
            let ok = match flavour {
                1 => false,
                _ => rng.chance(1, 2),
            };
            toks.push(format!("{d}{}", if ok { 'o' } else { 'e' }));
        }
        let d = if flavour == 2 { 0 } else { *rng.pick(DELAYS) };
        toks.push(format!("{d}x"));
        svcs.push(toks.join(","));
    }
    format!("{extra} {}", svcs.join(";"))
}

fn parse(raw: &str) -> (u64, Vec<Option<Script>>) {
    let (extra, rest) = raw.split_once(' ').expect("extra svcs");
    let extra: u64 = extra.parse().unwrap();
    if rest.trim() == "none" {
        return (extra, vec![]);
    }
    let svcs = rest
        .trim()
        .split(';')
        .map(|s| {
            if s == "-" {
                return None;
            }
            let mut items = Vec::new();
            let mut end_delay = 0;
            for tok in s.split(',') {
                let (d, k) = tok.split_at(tok.len() - 1);
                let d: u64 = d.parse().unwrap();
                match k {
                    "o" => items.push((d, true)),
                    "e" => items.push((d, false)),
                    "x" => end_delay = d,
                    _ => panic!("bad token {tok}"),
                }
            }
            Some(Script { items, end_delay })
        })
        .collect();
    (extra, svcs)
}

#[derive(Debug, Clone)]
enum Ev {
    Item(u64, u64),
    Err(u64, u64),
    NoService,
    NoResults(Vec<(u64, u64)>),
    /// an element the harness could not attribute to a scripted service
    Unknown,
    End,
}

fn err_id(e: &Error) -> Option<(u64, u64)> {
    let s = format!("{e:#}");
    let at = s.find('E')?;
    // message is `E<svc>_<pos>_`
    let rest = &s[at..];
    let mut it = rest[1..].split('_');
    let a = it.next()?.parse().ok()?;
    let b = it.next()?.parse().ok()?;
    Some((a, b))
}

fn classify(x: Option<Result<Result<Item, Error>, AddressLookupFailed>>) -> Ev {
    match x {
        None => Ev::End,
        Some(Ok(Ok(item))) => {
            let s = PROV.iter().position(|p| *p == item.provenance());
            match (s, item.last_updated()) {
                (Some(s), Some(q)) => Ev::Item(s as u64, q),
                _ => Ev::Unknown,
            }
        }
        Some(Ok(Err(e))) => err_id(&e).map_or(Ev::Unknown, |(s, q)| Ev::Err(s, q)),
        Some(Err(AddressLookupFailed::NoServiceConfigured { .. })) => Ev::NoService,
        Some(Err(AddressLookupFailed::NoResults { errors, .. })) => {
            let ids: Option<Vec<_>> = errors.iter().map(err_id).collect();
            ids.map_or(Ev::Unknown, Ev::NoResults)
        }
        Some(Err(_)) => Ev::Unknown,
    }
}

fn coq_ev(e: &Ev) -> String {
    match e {
        Ev::Item(s, q) => format!("C29.OItem {s} {q}"),
        Ev::Err(s, q) => format!("C29.OErr {s} {q}"),
        Ev::NoService => "C29.ONoService".into(),
        Ev::NoResults(v) => format!("C29.ONoResults {}", coq_list(v.iter(), |(s, q)| format!("({s}, {q})"))),
        Ev::Unknown => "C29.OUnknown".into(),
        Ev::End => "C29.OEnd".into(),
    }
}

fn run(raw: &str) -> (String, String) {
    let (extra, svcs) = parse(raw);
    let total: usize = svcs.iter().flatten().map(|s| s.items.len()).sum();
    let svcs2 = svcs.clone();
    let r = catch(move || {
        let rt = tokio::runtime::Builder::new_current_thread()
            .enable_time()
            .start_paused(true)
            .build()
            .unwrap();
        rt.block_on(async move {
            let reg = AddressLookupServices::default();
            for (idx, s) in svcs2.into_iter().enumerate() {
                reg.add(Scripted { idx, script: s });
            }
            let id = SecretKey::from_bytes(&[7u8; 32]).public();
            let start = tokio::time::Instant::now();
            let stream = reg.resolve(id);
            tokio::pin!(stream);
            let mut out: Vec<(u64, Ev)> = Vec::new();
            let cap = total + 4;
            let mut ended = false;
            let mut after = 0;
            loop {
                let x = stream.next().await;
                let t = (tokio::time::Instant::now() - start).as_millis() as u64;
                let ev = classify(x);
                let is_end = matches!(ev, Ev::End);
                out.push((t, ev));
                if ended {
                    after += 1;
                }
                if is_end {
                    ended = true;
                }
                if (ended && after >= extra) || out.len() > cap + extra as usize {
                    break;
                }
            }
            out
        })
    });
    let sched: Vec<u64> = match &r {
        Caught::Value(out) => out
            .iter()
            .filter_map(|(_, e)| match e {
                Ev::Item(s, _) | Ev::Err(s, _) => Some(*s),
                _ => None,
            })
            .collect(),
        _ => vec![],
    };
    let coq_in = format!(
        "({}, {}, {extra})",
        coq_list(svcs.iter(), |s| coq_opt(s.as_ref(), |s| format!(
            "({}, {})",
            coq_list(s.items.iter(), |(d, ok)| format!("({d}, {})", if *ok { "C29.KOk" } else { "C29.KErr" })),
            s.end_delay
        ))),
        coq_list(sched.iter(), |s| s.to_string())
    );
    let out = match &r {
        Caught::Value(out) => format!("(Ok {})", coq_list(out.iter(), |(t, e)| format!("({t}, {})", coq_ev(e)))),
        Caught::Panicked(_) => "Panic".to_string(),
    };
    (coq_in, out)
}

fn main() {
    main_with(generate, run);
}
