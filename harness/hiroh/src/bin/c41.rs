//! C41 — Router::shutdown returns only after handlers and endpoint are shut down.
//!
//! raw case: `<h> <action> <action> ...`
//!   h       number of registered protocol handlers (0..3); every handler's `shutdown`
//!           blocks until the harness opens the gate (action `g`)
//!   s<i>    caller i (a task owning a clone of the router) calls `shutdown()`
//!   p<i>    same, but the caller is parked at the pause point right after the
//!           `is_shutdown()` check (hook `router.shutdown.after_check`)
//!   r<i>    release parked caller i
//!   g       open the gate: handlers' shutdown futures may complete
//!   x       the endpoint is closed from outside the router (`Endpoint::close`)
//!   w       hold: let HOLD_MS of real time pass with nothing else happening, then take the
//!           snapshot of the preceding action again (it replaces that snapshot; `w` is not an
//!           action of the model, which has no notion of time: nothing may change just
//!           because time passes — in particular a caller waiting on handlers whose gate
//!           is still closed must still be waiting)
//! The whole case runs on one current-thread runtime, so the callers and the run loop
//! interleave exactly at their await points; after every action the harness waits for
//! quiescence and takes a snapshot
//!   (router.is_shutdown(), endpoint.is_closed(), all handlers done, status of callers 0..2)
//! where a returned caller carries what it saw at the instant `shutdown()` returned.
use std::{
    net::Ipv4Addr,
    sync::{
        Arc, Mutex,
        atomic::{AtomicUsize, Ordering::SeqCst},
    },
    time::{Duration, Instant},
};

use hcommon::*;
use iroh::{
    Endpoint,
    endpoint::{Connection, presets},
    protocol::{AcceptError, ProtocolHandler, Router},
};
use iroh_base::verif_hooks as sched;

const POINT: &str = "router.shutdown.after_check";
const NCALLERS: usize = 3;
/// Real time a `w` token lets pass (longer than any plausible "give up on the handler" timeout
/// that is still short enough to run in the quick check).
const HOLD_MS: u64 = 4500;

#[derive(Debug, Clone)]
struct Gated {
    gate: tokio::sync::watch::Receiver<bool>,
    started: Arc<AtomicUsize>,
    done: Arc<AtomicUsize>,
}

impl ProtocolHandler for Gated {
    async fn accept(&self, _conn: Connection) -> Result<(), AcceptError> {
        Ok(())
    }
    async fn shutdown(&self) {
        self.started.fetch_add(1, SeqCst);
        let mut g = self.gate.clone();
        let _ = g.wait_for(|v| *v).await;
        self.done.fetch_add(1, SeqCst);
    }
}

#[derive(Clone, Copy, Debug, PartialEq)]
enum Act {
    Start(usize),
    StartPaused(usize),
    Release(usize),
    Gate,
    ExtClose,
    Hold,
}

fn act_raw(a: &Act) -> String {
    match a {
        Act::Start(i) => format!("s{i}"),
        Act::StartPaused(i) => format!("p{i}"),
        Act::Release(i) => format!("r{i}"),
        Act::Gate => "g".into(),
        Act::ExtClose => "x".into(),
        Act::Hold => "w".into(),
    }
}

fn act_parse(t: &str) -> Act {
    let (k, r) = t.split_at(1);
    match k {
        "s" => Act::Start(r.parse().unwrap()),
        "p" => Act::StartPaused(r.parse().unwrap()),
        "r" => Act::Release(r.parse().unwrap()),
        "g" => Act::Gate,
        "x" => Act::ExtClose,
        "w" => Act::Hold,
        _ => panic!("bad action {t}"),
    }
}

fn act_coq(a: &Act) -> String {
    match a {
        Act::Start(i) => format!("C41.AStart {i}"),
        Act::StartPaused(i) => format!("C41.AStartPaused {i}"),
        Act::Release(i) => format!("C41.ARelease {i}"),
        Act::Gate => "C41.AGate".into(),
        Act::ExtClose => "C41.AExtClose".into(),
        Act::Hold => unreachable!("w is not a model action"),
    }
}

fn generate(rng: &mut Rng, i: u64, _n: u64) -> String {
    let h = match rng.below(6) {
        0 => 0,
        1 | 2 => 1,
        3 | 4 => 2,
        _ => 3,
    };
    // which callers take part (at least one, mostly two or three)
    let ncall = if i < 3 { 1 + i as usize } else { *rng.pick(&[1usize, 2, 2, 3, 3, 3]) };
    let mut ids: Vec<usize> = (0..NCALLERS).collect();
    for k in (1..ids.len()).rev() {
        let j = rng.below(k as u64 + 1) as usize;
        ids.swap(k, j);
    }
    ids.truncate(ncall);
    // sequences to interleave (order inside a sequence is kept)
    let mut seqs: Vec<Vec<Act>> = Vec::new();
    for &c in &ids {
        if rng.chance(2, 5) {
            seqs.push(vec![Act::StartPaused(c), Act::Release(c)]);
        } else {
            seqs.push(vec![Act::Start(c)]);
        }
    }
    seqs.push(vec![Act::Gate]);
    if rng.chance(1, 4) {
        seqs.push(vec![Act::ExtClose]);
    }
    let mut out = Vec::new();
    while !seqs.is_empty() {
        let k = rng.below(seqs.len() as u64) as usize;
        out.push(seqs[k].remove(0));
        if seqs[k].is_empty() {
            seqs.remove(k);
        }
    }
    // rarely (real time is expensive): hold while the handlers' gate is still closed and a
    // shutdown is in progress
    if h > 0 && rng.chance(1, 16) {
        let g = out.iter().position(|a| *a == Act::Gate).unwrap();
        let triggered =
            out[..g].iter().any(|a| matches!(a, Act::Start(_) | Act::Release(_) | Act::ExtClose));
        if triggered {
            out.insert(g, Act::Hold);
        }
    }
    format!("{h} {}", out.iter().map(act_raw).collect::<Vec<_>>().join(" "))
}

#[derive(Clone, Copy, Debug, PartialEq)]
enum Status {
    NotStarted,
    Running,
    Returned(bool, bool, bool),
}

type Snap = (bool, bool, bool, Vec<Status>);

struct World {
    h: usize,
    ep: Endpoint,
    router: Router,
    gate_tx: tokio::sync::watch::Sender<bool>,
    gate_open: bool,
    started: Arc<AtomicUsize>,
    done: Arc<AtomicUsize>,
    slots: Vec<Arc<Mutex<Option<(bool, bool, bool)>>>>,
    spawned: Vec<bool>,
    tickets: Vec<Option<u64>>,
    ext_closed: bool,
    tasks: Vec<tokio::task::JoinHandle<()>>,
}

async fn settle() {
    for _ in 0..64 {
        tokio::task::yield_now().await;
    }
}

impl World {
    fn parked(&self, i: usize) -> bool {
        self.tickets[i].is_some_and(|t| sched::parked_at(POINT).contains(&t))
    }
    fn returned(&self, i: usize) -> bool {
        self.slots[i].lock().unwrap().is_some()
    }
    fn snapshot(&self) -> Snap {
        let st = (0..NCALLERS)
            .map(|i| match *self.slots[i].lock().unwrap() {
                Some((ok, hd, ec)) => Status::Returned(ok, hd, ec),
                None if self.spawned[i] => Status::Running,
                None => Status::NotStarted,
            })
            .collect();
        (
            self.router.is_shutdown(),
            self.ep.is_closed(),
            self.done.load(SeqCst) == self.h,
            st,
        )
    }
    fn spawn_caller(&mut self, i: usize) {
        let r = self.router.clone();
        let ep = self.ep.clone();
        let done = self.done.clone();
        let h = self.h;
        let slot = self.slots[i].clone();
        self.spawned[i] = true;
        self.tasks.push(tokio::spawn(async move {
            let res = r.shutdown().await;
            let obs = (res.is_ok(), done.load(SeqCst) == h, ep.is_closed());
            *slot.lock().unwrap() = Some(obs);
        }));
    }
    /// Waits until nothing more can happen without a further action.
    async fn quiesce(&self) {
        settle().await;
        let active: Vec<usize> = (0..NCALLERS).filter(|&i| self.spawned[i] && !self.parked(i)).collect();
        let triggered = self.ext_closed || !active.is_empty();
        if !triggered {
            return;
        }
        let deadline = Instant::now() + Duration::from_secs(30);
        loop {
            let ok = if self.gate_open || self.h == 0 {
                // the run loop can run to its end
                active.iter().all(|&i| self.returned(i))
                    && self.router.is_shutdown()
                    && self.ep.is_closed()
                    && self.done.load(SeqCst) == self.h
            } else {
                // the run loop gets as far as the handlers' shutdown and blocks there
                self.started.load(SeqCst) == self.h
            };
            if ok || Instant::now() >= deadline {
                break;
            }
            tokio::time::sleep(Duration::from_millis(2)).await;
            settle().await;
        }
        settle().await;
    }
}

async fn run_case(h: usize, acts: &[Act]) -> Vec<Snap> {
    sched::reset();
    let ep = Endpoint::builder(presets::Minimal)
        .clear_ip_transports()
        .bind_addr((Ipv4Addr::LOCALHOST, 0))
        .expect("bind addr")
        .bind()
        .await
        .expect("bind");
    let (gate_tx, gate_rx) = tokio::sync::watch::channel(false);
    let started = Arc::new(AtomicUsize::new(0));
    let done = Arc::new(AtomicUsize::new(0));
    let mut b = Router::builder(ep.clone());
    for k in 0..h {
        b = b.accept(
            format!("/c41/{k}"),
            Gated { gate: gate_rx.clone(), started: started.clone(), done: done.clone() },
        );
    }
    let router = b.spawn();
    let mut w = World {
        h,
        ep,
        router,
        gate_tx,
        gate_open: false,
        started,
        done,
        slots: (0..NCALLERS).map(|_| Arc::new(Mutex::new(None))).collect(),
        spawned: vec![false; NCALLERS],
        tickets: vec![None; NCALLERS],
        ext_closed: false,
        tasks: Vec::new(),
    };
    settle().await;
    let mut snaps = Vec::new();
    for a in acts {
        match *a {
            Act::Start(i) => {
                if !w.spawned[i] {
                    w.spawn_caller(i);
                }
            }
            Act::StartPaused(i) => {
                if !w.spawned[i] {
                    let before = sched::parked_at(POINT);
                    sched::arm(POINT);
                    w.spawn_caller(i);
                    settle().await;
                    sched::disarm(POINT);
                    w.tickets[i] = sched::parked_at(POINT).into_iter().find(|t| !before.contains(t));
                }
            }
            Act::Release(i) => {
                if let Some(t) = w.tickets[i].take() {
                    sched::release(t);
                }
            }
            Act::Gate => {
                w.gate_open = true;
                let _ = w.gate_tx.send(true);
            }
            Act::Hold => {
                // only real time passes; the harness does nothing
                tokio::time::sleep(Duration::from_millis(HOLD_MS)).await;
                w.quiesce().await;
                if snaps.pop().is_some() {
                    snaps.push(w.snapshot());
                }
                continue;
            }
            Act::ExtClose => {
                if !w.ext_closed {
                    w.ext_closed = true;
                    let ep = w.ep.clone();
                    w.tasks.push(tokio::spawn(async move { ep.close().await }));
                    let deadline = Instant::now() + Duration::from_secs(30);
                    while !w.ep.is_closed() && Instant::now() < deadline {
                        tokio::time::sleep(Duration::from_millis(2)).await;
                    }
                }
            }
        }
        w.quiesce().await;
        snaps.push(w.snapshot());
    }
    // cleanup (not observed): let everything finish
    let _ = w.gate_tx.send(true);
    sched::reset();
    let _ = tokio::time::timeout(Duration::from_secs(10), w.router.shutdown()).await;
    for t in w.tasks.drain(..) {
        let _ = tokio::time::timeout(Duration::from_secs(5), t).await;
    }
    snaps
}

fn coq_status(s: &Status) -> String {
    match s {
        Status::NotStarted => "C41.NotStarted".into(),
        Status::Running => "C41.Running".into(),
        Status::Returned(ok, hd, ec) => {
            format!("C41.Returned {} {} {}", coq_bool(*ok), coq_bool(*hd), coq_bool(*ec))
        }
    }
}

fn run(raw: &str) -> (String, String) {
    let mut it = raw.split_whitespace();
    let h: usize = it.next().unwrap().parse().unwrap();
    let acts: Vec<Act> = it.map(act_parse).collect();
    let coq_in =
        format!("({h}, {})", coq_list(acts.iter().filter(|a| **a != Act::Hold), act_coq));
    let acts2 = acts.clone();
    let r = catch(move || {
        let rt = tokio::runtime::Builder::new_current_thread().enable_all().build().unwrap();
        let out = rt.block_on(run_case(h, &acts2));
        rt.shutdown_timeout(Duration::from_secs(2));
        out
    });
    let out = match &r {
        Caught::Value(snaps) => format!(
            "(Ok {})",
            coq_list(snaps.iter(), |(a, b, c, st)| format!(
                "({}, {}, {}, {})",
                coq_bool(*a),
                coq_bool(*b),
                coq_bool(*c),
                coq_list(st.iter(), coq_status)
            ))
        ),
        Caught::Panicked(_) => "Panic".to_string(),
    };
    (coq_in, out)
}

fn main() {
    main_with(generate, run);
}
