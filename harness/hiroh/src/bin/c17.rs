//! C17 — RelayTransport::poll_recv driven through the guarded hook (no relay actor).
//! raw case: events separated by spaces
//!   `A/<src>/<ecn 0-3>/<ss or ->/<bytes>`  the actor queues a received batch
//!   `P/<b1>,<b2>,...`                      one poll_recv with buffers of these sizes (`P/` = none)
//!   `C`                                    the sending half of the queue is dropped
use std::{
    num::NonZeroU16,
    sync::{
        Arc,
        atomic::{AtomicUsize, Ordering},
    },
    task::{Wake, Waker},
};

use hcommon::*;
use iroh::verif_hooks::c17::{PollOut, Transport};
use iroh_base::{EndpointId, RelayUrl, SecretKey};
use iroh_relay::protos::relay::Datagrams;
use noq_proto::EcnCodepoint;

static WAKES: AtomicUsize = AtomicUsize::new(0);

struct CountingWaker;
impl Wake for CountingWaker {
    fn wake(self: Arc<Self>) {
        WAKES.fetch_add(1, Ordering::SeqCst);
    }
    fn wake_by_ref(self: &Arc<Self>) {
        WAKES.fetch_add(1, Ordering::SeqCst);
    }
}

fn key(k: u64) -> EndpointId {
    SecretKey::from_bytes(&[(k % 4) as u8 + 1; 32]).public()
}
fn url(k: u64) -> RelayUrl {
    format!("https://r{k}.relay.test").parse().unwrap()
}
/// the number the model uses for (url, src); 999999 if they do not belong together
fn src_of(u: &RelayUrl, e: &EndpointId) -> u64 {
    let s = u.to_string();
    let k: Option<u64> = s
        .strip_prefix("https://r")
        .and_then(|r| r.split('.').next())
        .and_then(|n| n.parse().ok());
    match k {
        Some(k) if key(k) == *e => k,
        _ => 999_999,
    }
}

// ---------------------------------------------------------------- generator
fn gen_batch(rng: &mut Rng, b: u64, scale_small: bool) -> String {
    let src = rng.below(6);
    let ecn = rng.below(4);
    let ss: Option<u64> = match rng.below(12) {
        0 | 1 => None,
        2 => Some(1),
        3 => Some(b.saturating_sub(1).max(1)),
        4 | 5 => Some(b),
        6 | 7 => Some(b + 1),
        8 => Some(2 * b),
        9 => Some(if scale_small { rng.range(1, 3 * b + 2) } else { 65535 }),
        10 => Some((b / 2).max(1)),
        _ => Some((b / 3).max(1)),
    };
    let ss = ss.map(|s| s.clamp(1, 65535));
    let unit = ss.unwrap_or(b).max(1);
    let maxlen: u64 = if scale_small { 160 } else if b > 2000 { 70_000 } else { 5000 };
    let len = match rng.below(10) {
        0 => 0,
        1 | 2 | 3 => {
            // around a multiple of the segment size
            let k = rng.range(0, 5);
            (unit * k + rng.range(0, 2)).saturating_sub(1)
        }
        4 | 5 => {
            // around a multiple of the buffer size
            let k = rng.range(1, 3);
            (b * k + rng.range(0, 2)).saturating_sub(1)
        }
        6 => rng.range(0, unit),
        _ => rng.range(0, 4 * unit + 3),
    }
    .min(maxlen);
    // cutting into datagrams is quadratic in the model's monitor: at most ~400 datagrams per batch
    let len = len.min(unit * 400 + 1);
    let bytes = if len <= 200 { Bytes::Hex(rng.bytes(len as usize)) } else { Bytes::random(rng, len as usize) };
    format!("A/{src}/{ecn}/{}/{}", ss.map_or("-".into(), |s| s.to_string()), bytes.raw())
}

fn generate(rng: &mut Rng, _i: u64, _n: u64) -> String {
    // large buffers mean long byte strings, which are slow to evaluate inside Coq: keep them rare
    let (b, small): (u64, bool) = match rng.below(300) {
        0 => (65535, false),
        1..=12 => (*rng.pick(&[1200u64, 1500]), false),
        _ => (*rng.pick(&[1u64, 2, 3, 4, 5, 8, 13, 16, 32]), true),
    };
    let mixed = rng.chance(1, 12);
    let nev = if small { rng.range(1, 14) } else { rng.range(1, 6) };
    let arrive_bias = rng.range(1, 3); // of 4
    let mut evs: Vec<String> = Vec::new();
    let mut closed = false;
    for k in 0..nev {
        if !closed && rng.below(4) < arrive_bias {
            evs.push(gen_batch(rng, b, small));
            continue;
        }
        if !closed && k + 3 >= nev && rng.chance(1, 12) {
            evs.push("C".into());
            closed = true;
            continue;
        }
        let nb = match rng.below(40) {
            0 => 0,
            1..=20 => 1,
            21..=30 => 2,
            _ => rng.range(3, 8),
        };
        let sizes: Vec<String> = (0..nb)
            .map(|_| {
                let x = if mixed && rng.chance(1, 2) { (*rng.pick(&[b / 2, b + 1, 2 * b, 1])).max(1) } else { b };
                x.to_string()
            })
            .collect();
        evs.push(format!("P/{}", sizes.join(",")));
    }
    // drain at the end so that everything queued is accounted for
    if rng.chance(3, 4) {
        for _ in 0..rng.range(1, 4) {
            evs.push(format!("P/{b}"));
        }
    }
    evs.join(" ")
}

// ---------------------------------------------------------------- run
fn coq_slot(u: &RelayUrl, e: &EndpointId, len: usize, stride: usize, data: &[u8]) -> String {
    format!("(C17.mkSlot {} {len} {stride} {})", src_of(u, e), coq_hex(data))
}

fn run(raw: &str) -> (String, String) {
    let rt = tokio::runtime::Builder::new_current_thread().build().unwrap();
    let _g = rt.enter();
    let mut ins: Vec<String> = Vec::new();
    let mut outs: Vec<String> = Vec::new();
    let r = catch(|| {
        let mut t = Transport::new(4096);
        for tok in raw.split_whitespace() {
            if tok == "C" {
                ins.push("C17.Close".into());
                let before = WAKES.load(Ordering::SeqCst);
                t.close();
                let woken = WAKES.load(Ordering::SeqCst) != before;
                outs.push(format!("(C17.OClose {})", coq_bool(woken)));
            } else if let Some(rest) = tok.strip_prefix("A/") {
                let p: Vec<&str> = rest.splitn(4, '/').collect();
                let src: u64 = p[0].parse().unwrap();
                let ecn: u64 = p[1].parse().unwrap();
                let ss: Option<u16> = if p[2] == "-" { None } else { Some(p[2].parse().unwrap()) };
                let b = Bytes::parse(p[3]);
                ins.push(format!(
                    "(C17.Arrive (C17.mkItem {src} (C16.mkDg {ecn} {} {})))",
                    coq_opt(ss, |s| s.to_string()),
                    b.coq()
                ));
                let d = Datagrams {
                    ecn: EcnCodepoint::from_bits(ecn as u8),
                    segment_size: ss.and_then(NonZeroU16::new),
                    contents: b.to_vec().into(),
                };
                let before = WAKES.load(Ordering::SeqCst);
                let _ = t.push(url(src), key(src), d);
                let woken = WAKES.load(Ordering::SeqCst) != before;
                outs.push(format!("(C17.OArrive {})", coq_bool(woken)));
            } else if let Some(rest) = tok.strip_prefix("P/") {
                let lens: Vec<usize> =
                    rest.split(',').filter(|x| !x.is_empty()).map(|x| x.parse().unwrap()).collect();
                ins.push(format!("(C17.Poll {})", coq_list(lens.iter(), |l| l.to_string())));
                let arc = Arc::new(CountingWaker);
                let waker = Waker::from(arc.clone());
                let res = t.poll(&waker, &lens);
                drop(waker);
                // a clone of this poll's waker is still held somewhere: it was registered
                let reg = Arc::strong_count(&arc) > 1;
                let res = match res {
                    PollOut::Pending => "C17.Pending".to_string(),
                    PollOut::Err(_) => "C17.ErrClosed".to_string(),
                    PollOut::Ready(slots) => format!(
                        "(C17.Ready {})",
                        coq_list(slots.iter(), |s| coq_slot(&s.url, &s.src, s.len, s.stride, &s.data))
                    ),
                };
                let pend = t.pending().map(|(u, ss, l)| {
                    let k = src_of(&u, &key(src_of_url(&u)));
                    format!("({k}, {}, {l})", coq_opt(ss, |s| s.to_string()))
                });
                outs.push(format!("(C17.OPoll {res} {} {})", coq_bool(reg), coq_opt(pend, |s| s)));
            } else {
                panic!("bad token {tok}");
            }
        }
    });
    if let Caught::Panicked(_) = r {
        // a panic inside poll_recv: report the poll as Stuck (never equals a model output)
        outs.push("(C17.OPoll C17.Stuck false None)".into());
    }
    (coq_list(ins.iter(), |s| s.clone()), coq_list(outs.iter(), |s| s.clone()))
}

fn src_of_url(u: &RelayUrl) -> u64 {
    u.to_string()
        .strip_prefix("https://r")
        .and_then(|r| r.split('.').next().map(|s| s.to_string()))
        .and_then(|n| n.parse().ok())
        .unwrap_or(999_999)
}

fn main() {
    main_with(generate, run);
}
