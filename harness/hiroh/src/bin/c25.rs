//! C25 — DirectAddrUpdateState scheduling (iroh/src/socket.rs), driven through a
//! real `Endpoint` with a local relay server.
//!
//! raw case: `<N|E> cmd*`   (`N`: relay map holds the local relay at bind, `E`: empty)
//!   i    Endpoint::insert_relay(local relay)  -> actor: schedule_run(RelayMapChange)
//!   r    Endpoint::remove_relay(local relay)  -> actor: schedule_run(RelayMapChange), map now empty
//!   w    let the run parked at `socket.direct_addr.before_report` do its report
//!        (real net report against the local relay) up to `before_done_send`
//!   s<k> let the k-th (mod count, oldest first) run parked at `before_done_send`
//!        send its done signal; it parks again at `after_done_send`
//!   e<k> let the k-th run parked at `after_done_send` finish
//!   t    let the socket actor, parked at `socket.actor.before_try_run` after
//!        receiving a done signal, call `try_run`
//! A command that is not enabled (nothing parked there, actor parked while a
//! schedule request is to be issued, done channel full) is skipped — by the
//! harness from what it observed, by the model from its state.
//!
//! Output: the observed event trace as a Coq `list C25.ev`.  The reporter lock is
//! observed through `iroh::verif_hooks::c25::reporter_held` whenever the run task
//! is parked (`Release` is placed where the lock is first seen free).
use std::{
    sync::{Arc, OnceLock},
    time::{Duration, Instant},
};

use hcommon::*;
use iroh::{
    Endpoint, RelayConfig, RelayMap, RelayMode, RelayUrl,
    endpoint::presets,
    tls::CaTlsConfig,
    verif_hooks::{c25 as hook, sched},
};

const P0: &str = "socket.direct_addr.before_report";
const P1: &str = "socket.direct_addr.before_done_send";
const P2: &str = "socket.direct_addr.after_done_send";
const P3: &str = "socket.actor.before_try_run";
/// `mpsc::channel(8)` for direct_addr_done in `Handle::new` (socket.rs)
const DONE_CAP: u64 = 8;
const WAIT: Duration = Duration::from_secs(20);

struct Env {
    rt: tokio::runtime::Runtime,
    url: RelayUrl,
    config: Arc<RelayConfig>,
    _server: iroh_relay::server::Server,
}

fn env() -> &'static Env {
    static E: OnceLock<Env> = OnceLock::new();
    E.get_or_init(|| {
        let rt = tokio::runtime::Builder::new_multi_thread()
            .worker_threads(3)
            .enable_all()
            .build()
            .unwrap();
        let (map, url, server) = rt.block_on(iroh::test_utils::run_relay_server()).unwrap();
        let config = map.get(&url).unwrap();
        Env { rt, url, config, _server: server }
    })
}

/// Scripts that always run first: every order of {done signal, try_run, task end} after a
/// request met a running report, requests before/after the report, two runs signalling in
/// both orders, skipped runs.
const TEMPLATES: &[&str] = &[
    "N i w s0 t e0",
    "N i w s0 e0 t",
    "N i i w s0 t e0 w s0 t e0",
    "N w i s0 t e0 w s0 e0 t",
    "N w i w s0 s0 t t e0 e0",
    "N w i w s1 s0 t t e1 e0",
    "N w i w s0 t s0 t e1 e0 i",
    "N i w i s0 t w i s0 s0 t t t",
    "N r w s0 t e0 i w s0 t",
    "N r w i s0 e0 t w",
    "E i w s0 t e0",
    "E i i w r s0 t i",
    "N t s0 e0 w w t",
];

fn generate(rng: &mut Rng, i: u64, _n: u64) -> String {
    if (i as usize) < TEMPLATES.len() {
        return TEMPLATES[i as usize].to_string();
    }
    let mut out = vec![if rng.chance(1, 8) { "E" } else { "N" }.to_string()];
    let len = 3 + rng.below(4 + (i % 14));
    // most scripts start with a request that meets the initial run
    if rng.chance(3, 4) {
        out.push("i".to_string());
    }
    // biased towards the interesting region: requests while a run is in flight, then every
    // order of {send, try, end}
    for _ in 0..len {
        let c = match rng.below(20) {
            0..=4 => "i".to_string(),
            5 => "r".to_string(),
            6..=9 => "w".to_string(),
            10..=13 => format!("s{}", rng.below(3)),
            14..=16 => "t".to_string(),
            _ => format!("e{}", rng.below(3)),
        };
        out.push(c);
    }
    out.join(" ")
}

#[derive(Default)]
struct Driver {
    trace: Vec<String>,
    errors: Vec<String>,
    next_tid: u64,
    /// schedule/try_run saw the lock free; waiting for the `c25.run` entry
    pending: Option<Pending>,
    awaiting_p0: Option<u64>,
    working: Option<u64>,
    sending: Option<u64>,
    p0: Vec<(u64, u64)>,
    p1: Vec<(u64, u64)>,
    p2: Vec<(u64, u64)>,
    actor: Option<u64>,
    doneq: u64,
    deferred_recv: Option<u64>,
    held_by: Option<u64>,
    n_sched: u64,
    n_try: u64,
}

enum Pending {
    Sched(String),
    Try(String),
}

/// `UpdateReason::None` is `NoReason` in the model
fn why_name(w: &str) -> &str {
    if w == "None" { "NoReason" } else { w }
}

fn ticket_of(detail: &str) -> u64 {
    detail.rsplit('#').next().unwrap().parse().unwrap()
}

impl Driver {
    fn ev(&mut self, s: String) {
        self.trace.push(s);
    }

    fn sample_release(&mut self, tid: u64) {
        if self.held_by == Some(tid) && hook::reporter_held() == Some(false) {
            self.held_by = None;
            self.ev(format!("C25.ERelease {tid}"));
        }
    }

    fn handle(&mut self, name: &str, detail: &str) {
        match name {
            "c25.schedule" => {
                self.n_sched += 1;
                let (st, why) = detail.split_once(' ').unwrap();
                let why = why_name(why);
                if st == "busy" {
                    self.ev(format!("C25.ESched C25.{why} C25.SBusy"));
                } else {
                    self.pending = Some(Pending::Sched(why.to_string()));
                }
            }
            "c25.try_run" => {
                self.n_try += 1;
                self.actor = None;
                let (st, want) = detail.split_once(' ').unwrap();
                if st == "busy" {
                    self.ev("C25.ETry C25.TBusy".to_string());
                } else if want == "None" {
                    self.ev("C25.ETry C25.TNoWant".to_string());
                } else {
                    let why = why_name(want.trim_start_matches("Some(").trim_end_matches(')'));
                    self.pending = Some(Pending::Try(why.to_string()));
                }
            }
            "c25.run" => {
                let p = self.pending.take();
                let res = |start: String, skip: &str| match detail {
                    "spawn" => start,
                    "skip_empty" => format!("C25.{skip}Empty"),
                    _ => format!("C25.{skip}Down"),
                };
                let tid = self.next_tid + 1;
                match p {
                    Some(Pending::Sched(why)) => {
                        let r = res(format!("(C25.SStart {tid})"), "SSkip");
                        self.ev(format!("C25.ESched C25.{why} {r}"));
                    }
                    Some(Pending::Try(why)) => {
                        let r = match detail {
                            "spawn" => format!("(C25.TStart C25.{why} {tid})"),
                            "skip_empty" => format!("(C25.TSkipEmpty C25.{why})"),
                            _ => format!("(C25.TSkipDown C25.{why})"),
                        };
                        self.ev(format!("C25.ETry {r}"));
                    }
                    None => self.errors.push("run without schedule".into()),
                }
                if detail == "spawn" {
                    self.next_tid = tid;
                    self.awaiting_p0 = Some(tid);
                    self.held_by = Some(tid);
                }
            }
            "parked" => {
                let t = ticket_of(detail);
                if detail.starts_with(P0) {
                    match self.awaiting_p0.take() {
                        Some(tid) => self.p0.push((tid, t)),
                        None => self.errors.push("unattributed run task".into()),
                    }
                } else if detail.starts_with(P1) {
                    match self.working.take() {
                        Some(tid) => {
                            self.ev(format!("C25.EWork {tid}"));
                            self.ev(format!("C25.EStore {tid}"));
                            self.sample_release(tid);
                            self.p1.push((tid, t));
                            self.p1.sort();
                        }
                        None => self.errors.push("unattributed before_done_send".into()),
                    }
                } else if detail.starts_with(P2) {
                    match self.sending.take() {
                        Some(tid) => {
                            self.ev(format!("C25.ESend {tid}"));
                            self.doneq += 1;
                            self.sample_release(tid);
                            self.p2.push((tid, t));
                            self.p2.sort();
                            if let Some(at) = self.deferred_recv.take() {
                                self.recv(at);
                            }
                        }
                        None => self.errors.push("unattributed after_done_send".into()),
                    }
                } else if detail.starts_with(P3) {
                    if self.doneq == 0 {
                        // the actor got the signal before the sender reached its pause point
                        self.deferred_recv = Some(t);
                    } else {
                        self.recv(t);
                    }
                }
            }
            _ => {}
        }
    }

    fn recv(&mut self, ticket: u64) {
        self.doneq -= 1;
        self.actor = Some(ticket);
        self.ev("C25.ERecv".to_string());
    }

    /// Drains the hook log until `done(self)`; false on timeout.
    fn pump(&mut self, mut done: impl FnMut(&Driver) -> bool) -> bool {
        let deadline = Instant::now() + WAIT;
        loop {
            for (_, name, detail) in sched::take_log() {
                self.handle(&name, &detail);
            }
            if done(self) {
                return true;
            }
            if Instant::now() > deadline {
                self.errors.push("timeout".into());
                return false;
            }
            std::thread::sleep(Duration::from_micros(200));
        }
    }

    /// the actor is idle and a done signal is queued: it will receive it and park
    fn settle_actor(&mut self) {
        if self.actor.is_none() && (self.doneq > 0 || self.deferred_recv.is_some()) {
            self.pump(|d| d.actor.is_some());
        }
    }
}

fn run_case(raw: &str) -> (String, Vec<String>, Vec<String>) {
    let e = env();
    let toks: Vec<&str> = raw.split_whitespace().collect();
    let empty0 = toks[0] == "E";
    sched::reset();
    sched::take_log();
    for p in [P0, P1, P2, P3] {
        sched::arm(p);
    }
    let map = RelayMap::empty();
    if !empty0 {
        map.insert(e.url.clone(), e.config.clone());
    }
    let ep = e
        .rt
        .block_on(
            Endpoint::builder(presets::Minimal)
                .relay_mode(RelayMode::Custom(map))
                .ca_tls_config(CaTlsConfig::insecure_skip_verify())
                .bind(),
        )
        .expect("bind");
    let mut d = Driver::default();
    // startup: the first tick of the periodic timer schedules the first run
    d.pump(|d| d.n_sched >= 1 && d.pending.is_none() && d.awaiting_p0.is_none());

    for tok in &toks[1..] {
        let (c, k) = tok.split_at(1);
        let k: usize = k.parse().unwrap_or(0);
        match c {
            "i" | "r" => {
                if d.actor.is_some() {
                    continue;
                }
                let n = d.n_sched;
                if c == "i" {
                    d.ev("C25.ESetRelays false".into());
                    e.rt.block_on(ep.insert_relay(e.url.clone(), e.config.clone()));
                } else {
                    d.ev("C25.ESetRelays true".into());
                    e.rt.block_on(ep.remove_relay(&e.url));
                }
                d.pump(|d| d.n_sched > n && d.pending.is_none() && d.awaiting_p0.is_none());
            }
            "w" => {
                if d.p0.is_empty() {
                    continue;
                }
                let (tid, ticket) = d.p0.remove(0);
                d.working = Some(tid);
                sched::release(ticket);
                d.pump(|d| d.working.is_none());
            }
            "s" => {
                if d.p1.is_empty() || d.doneq >= DONE_CAP {
                    continue;
                }
                let (tid, ticket) = d.p1.remove(k % d.p1.len());
                d.sending = Some(tid);
                sched::release(ticket);
                d.pump(|d| d.sending.is_none());
                d.settle_actor();
            }
            "e" => {
                if d.p2.is_empty() {
                    continue;
                }
                let (tid, ticket) = d.p2.remove(k % d.p2.len());
                sched::release(ticket);
                if d.held_by == Some(tid) {
                    // the guard is dropped when the task ends
                    d.pump(|_| hook::reporter_held() != Some(true));
                    d.sample_release(tid);
                }
                d.ev(format!("C25.EEnd {tid}"));
            }
            "t" => {
                let Some(ticket) = d.actor else { continue };
                let n = d.n_try;
                sched::release(ticket);
                d.pump(|d| d.n_try > n && d.pending.is_none() && d.awaiting_p0.is_none());
                d.settle_actor();
            }
            _ => panic!("bad command {tok}"),
        }
    }
    // tear down: let everything run to completion, then clear the log
    sched::reset();
    e.rt.block_on(ep.close());
    let deadline = Instant::now() + Duration::from_secs(5);
    while hook::reporter_held().is_some() && Instant::now() < deadline {
        std::thread::sleep(Duration::from_millis(1));
    }
    std::thread::sleep(Duration::from_millis(5));
    sched::take_log();
    let input = format!(
        "({}, [{}])",
        coq_bool(empty0),
        toks[1..]
            .iter()
            .map(|t| {
                let (c, k) = t.split_at(1);
                let k: u64 = k.parse().unwrap_or(0);
                match c {
                    "i" => "C25.CIns".to_string(),
                    "r" => "C25.CRem".to_string(),
                    "w" => "C25.CWork".to_string(),
                    "s" => format!("C25.CSend {k}"),
                    "e" => format!("C25.CEnd {k}"),
                    _ => "C25.CTry".to_string(),
                }
            })
            .collect::<Vec<_>>()
            .join("; ")
    );
    (input, d.trace, d.errors)
}

fn run(raw: &str) -> (String, String) {
    let (input, trace, errors) = run_case(raw);
    let out = if errors.is_empty() {
        format!("(Ok [{}])", trace.join("; "))
    } else {
        eprintln!("c25: {raw}: harness errors {errors:?}; partial trace {trace:?}");
        "(Err 1)".to_string()
    };
    (input, out)
}

fn main() {
    main_with(generate, run);
}
