//! C28 — Client::add_report_history_and_set_preferred_relay.
//! raw case: calls separated by `;`, each `<dt ns> <v4> <v6> [<kind>:<relay>:<latency ns>]*`
//! with v4/v6 in {-,t,f} (mapping_varies_by_dest_ipv4/6 of the incoming report),
//! kind 0 https / 1 qad v4 / 2 qad v6, relay 0..9.
use std::time::Duration;

use hcommon::*;
use iroh::verif_hooks::{c27, c28::History};
use iroh_base::RelayUrl;

const S: u64 = 1_000_000_000;
const MAX_AGE: u64 = 300 * S;

fn gen_lat(rng: &mut Rng, b: u64) -> u64 {
    let t = b / 3 * 2;
    match rng.below(16) {
        0 => 0,
        1 => b,
        2 => b + 1,
        3 => b.saturating_sub(1),
        4 => t,
        5 => t + 1,
        6 => t.saturating_sub(1),
        7 => t + 2,
        8 => b * 3 / 2,
        9 => b * 3 / 2 + 1,
        10 => b * 2,
        11 => b * 3,
        12 => t / 3 * 2,
        13 => b / 2,
        _ => rng.range(t.saturating_sub(3), b * 3 / 2 + 3),
    }
}

fn generate(rng: &mut Rng, _i: u64, _n: u64) -> String {
    let relays = rng.range(1, 4);
    let b = *rng.pick(&[3u64, 4, 5, 6, 9, 10, 30, 31, 32, 1000, 30_000_000, 90_000_001, S + 2, 4 * S]);
    let ncalls = rng.range(1, 6);
    let mut calls = Vec::new();
    for c in 0..ncalls {
        let dt = if c == 0 {
            *rng.pick(&[0u64, 1, S])
        } else {
            match rng.below(12) {
                0 => 0,
                1 => 1,
                2 => MAX_AGE - 1,
                3 => MAX_AGE,
                4 => MAX_AGE + 1,
                5 => 2 * MAX_AGE,
                6 | 7 => 100 * S,
                _ => S,
            }
        };
        let flag = |rng: &mut Rng| *rng.pick(&["-", "-", "t", "f"]);
        let mut s = format!("{dt} {} {}", flag(rng), flag(rng));
        if !rng.chance(1, 15) {
            for u in 0..relays {
                if rng.chance(1, 5) {
                    continue; // relay not measured in this report
                }
                for k in 0..3 {
                    if rng.chance(3, 5) {
                        // occasionally a second, different reading of the same (kind, relay)
                        let reps = if rng.chance(1, 8) { 2 } else { 1 };
                        for _ in 0..reps {
                            s.push_str(&format!(" {k}:{u}:{}", gen_lat(rng, b)));
                        }
                    }
                }
            }
        }
        calls.push(s);
    }
    calls.join(" ; ")
}

fn url(id: u64) -> RelayUrl {
    assert!(id < 10);
    format!("https://r{id}.example").parse().unwrap()
}

fn url_id(u: &RelayUrl) -> u64 {
    let s = u.to_string();
    (s.strip_prefix("https://r").expect("url").as_bytes()[0] - b'0') as u64
}

struct Call {
    dt: u64,
    v4: Option<bool>,
    v6: Option<bool>,
    meas: Vec<(u8, u64, u64)>,
}

fn flag(s: &str) -> Option<bool> {
    match s {
        "t" => Some(true),
        "f" => Some(false),
        _ => None,
    }
}

fn parse(raw: &str) -> Vec<Call> {
    raw.split(';')
        .map(|c| {
            let t: Vec<&str> = c.split_whitespace().collect();
            Call {
                dt: t[0].parse().unwrap(),
                v4: flag(t[1]),
                v6: flag(t[2]),
                meas: t[3..]
                    .iter()
                    .map(|m| {
                        let f: Vec<&str> = m.split(':').collect();
                        (f[0].parse().unwrap(), f[1].parse().unwrap(), f[2].parse().unwrap())
                    })
                    .collect(),
            }
        })
        .collect()
}

type Obs = (Option<u64>, usize, Option<bool>, Option<bool>);

fn replay(calls: &[Call]) -> Vec<Obs> {
    let rt = tokio::runtime::Builder::new_current_thread()
        .enable_all()
        .start_paused(true)
        .build()
        .unwrap();
    rt.block_on(async {
        let mut h = History::new();
        let mut out = Vec::new();
        for c in calls {
            tokio::time::advance(Duration::from_nanos(c.dt)).await;
            let mut r = c27::Report::default();
            for (k, u, d) in &c.meas {
                c27::update_relay(&mut r.relay_latency, url(*u), Duration::from_nanos(*d), *k);
            }
            r.mapping_varies_by_dest_ipv4 = c.v4;
            r.mapping_varies_by_dest_ipv6 = c.v6;
            h.add(&mut r);
            out.push((
                r.preferred_relay.as_ref().map(url_id),
                h.prev_len(),
                r.mapping_varies_by_dest_ipv4,
                r.mapping_varies_by_dest_ipv6,
            ));
        }
        out
    })
}

fn run(raw: &str) -> (String, String) {
    let calls = parse(raw);
    let coq_in = coq_list(calls.iter(), |c| {
        format!(
            "(C28.mkCall {} {} {} {})",
            c.dt,
            coq_list(c.meas.iter(), |(k, u, d)| format!("({k}, {u}, {d})")),
            coq_opt(c.v4, coq_bool),
            coq_opt(c.v6, coq_bool)
        )
    });
    let out = match catch(|| replay(&calls)) {
        Caught::Value(obs) => coq_list(obs, |(p, n, v4, v6)| {
            format!(
                "(C28.mkObs {} {n} {} {})",
                coq_opt(p, |x| x.to_string()),
                coq_opt(v4, coq_bool),
                coq_opt(v6, coq_bool)
            )
        }),
        // a panic has no counterpart in the model: an output that cannot agree
        Caught::Panicked(_) => "[C28.mkObs None 999999 None None]".to_string(),
    };
    (coq_in, out)
}

fn main() {
    main_with(generate, run);
}
