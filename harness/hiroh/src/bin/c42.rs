//! C42 — connection hooks and connect preconditions gate every connection.
//!
//! raw case: `<target> <state> <alpn> <dialer hooks> <acceptor hooks>`
//!   target  `p` dial the peer | `s` dial one's own id
//!   state   `o` dialer endpoint open | `c` dialer endpoint closed before connecting
//!   alpn    `a` the ALPN the acceptor serves | `e` empty | `u` an ALPN the acceptor does not serve
//!   hooks   `-` (none) or `h,h,...` with h = `<before><after>`, before = `A`|`R`,
//!           after = `A` | `R<code>`   (e.g. `AA,AR12,RA`)
//! Two real endpoints on IPv4 loopback (no relay), one connection attempt.  Observed:
//! hook call logs on both sides, the dialer's result by phase, what the acceptor saw.
use std::{
    net::Ipv4Addr,
    sync::{Arc, Mutex},
    time::Duration,
};

use hcommon::*;
use iroh::{
    Endpoint, EndpointAddr,
    endpoint::{
        AfterHandshakeOutcome, BeforeConnectOutcome, ConnectWithOptsError, ConnectingError, Connection,
        ConnectionError, EndpointHooks, presets,
    },
};

const ALPN: &[u8] = b"/c42/a";
const ALPN_UNREG: &[u8] = b"/c42/u";
const DONE_CODE: u32 = 99;

#[derive(Clone, Copy, Debug)]
struct HookSpec {
    before_accept: bool,
    after_reject: Option<u32>,
}

type Log = Arc<Mutex<Vec<(u8, u64)>>>; // (phase 0 = before_connect, 1 = after_handshake; hook index)

#[derive(Debug)]
struct Scripted {
    idx: u64,
    spec: HookSpec,
    log: Log,
}

impl EndpointHooks for Scripted {
    async fn before_connect<'a>(&'a self, _remote: &'a EndpointAddr, _alpn: &'a [u8]) -> BeforeConnectOutcome {
        self.log.lock().unwrap().push((0, self.idx));
        if self.spec.before_accept { BeforeConnectOutcome::Accept } else { BeforeConnectOutcome::Reject }
    }
    async fn after_handshake<'a>(&'a self, _conn: &'a Connection) -> AfterHandshakeOutcome {
        self.log.lock().unwrap().push((1, self.idx));
        match self.spec.after_reject {
            None => AfterHandshakeOutcome::Accept,
            Some(c) => AfterHandshakeOutcome::Reject { error_code: c.into(), reason: b"hook".to_vec() },
        }
    }
}

fn hooks_raw(h: &[HookSpec]) -> String {
    if h.is_empty() {
        return "-".into();
    }
    h.iter()
        .map(|s| {
            format!(
                "{}{}",
                if s.before_accept { "A" } else { "R" },
                s.after_reject.map_or("A".to_string(), |c| format!("R{c}"))
            )
        })
        .collect::<Vec<_>>()
        .join(",")
}

fn hooks_parse(t: &str) -> Vec<HookSpec> {
    if t == "-" {
        return vec![];
    }
    t.split(',')
        .map(|h| {
            let (b, a) = h.split_at(1);
            HookSpec {
                before_accept: b == "A",
                after_reject: if a == "A" { None } else { Some(a[1..].parse().unwrap()) },
            }
        })
        .collect()
}

fn hooks_coq(h: &[HookSpec]) -> String {
    coq_list(h.iter(), |s| format!("({}, {})", coq_bool(s.before_accept), coq_opt(s.after_reject, |c| c.to_string())))
}

fn gen_hooks(rng: &mut Rng, dialer: bool) -> Vec<HookSpec> {
    let n = rng.below(5) as usize;
    // position of the first reject in each phase (n = none)
    let first_b = if dialer && rng.chance(1, 3) { rng.below(n as u64 + 1) as usize } else { n };
    let first_a = if rng.chance(2, 5) { rng.below(n as u64 + 1) as usize } else { n };
    (0..n)
        .map(|k| HookSpec {
            before_accept: if !dialer {
                true
            } else if k < first_b {
                true
            } else if k == first_b {
                false
            } else {
                rng.chance(1, 2)
            },
            after_reject: if k < first_a {
                None
            } else if k == first_a {
                Some(10 + rng.below(10) as u32)
            } else if rng.chance(1, 2) {
                Some(10 + rng.below(10) as u32)
            } else {
                None
            },
        })
        .collect()
}

fn generate(rng: &mut Rng, i: u64, _n: u64) -> String {
    let target = if rng.chance(1, 8) { "s" } else { "p" };
    let state = if rng.chance(1, 12) { "c" } else { "o" };
    let alpn = match rng.below(10) {
        0 => "e",
        1 => "u",
        _ => "a",
    };
    let (d, a) = if i == 0 { (vec![], vec![]) } else { (gen_hooks(rng, true), gen_hooks(rng, false)) };
    format!("{target} {state} {alpn} {} {}", hooks_raw(&d), hooks_raw(&a))
}

#[derive(Debug, Clone, PartialEq)]
enum Dial {
    /// connect_with_opts failed: 1 closed, 2 locally rejected, 3 self, 4 invalid alpn, 9 other
    Pre(u64),
    /// the handshake failed
    Handshake,
    /// after_handshake hook on the dialer rejected
    Rejected,
    /// established and greeted by the acceptor
    Established,
    /// established from the dialer's view, then closed by the peer with this application code
    PeerClosed(u64),
    /// established, then lost in another way
    Lost,
}

#[derive(Debug, Clone, PartialEq)]
enum Acc {
    NoIncoming,
    Handshake,
    Rejected,
    /// closed by the peer with this application code (99 = the dialer's normal close)
    Closed(u64),
    Other,
}

async fn bind(hooks: &[HookSpec], log: &Log, alpns: Vec<Vec<u8>>) -> Endpoint {
    let mut b = Endpoint::builder(presets::Minimal)
        .clear_ip_transports()
        .bind_addr((Ipv4Addr::LOCALHOST, 0))
        .expect("addr")
        .alpns(alpns);
    for (k, h) in hooks.iter().enumerate() {
        b = b.hooks(Scripted { idx: k as u64, spec: *h, log: log.clone() });
    }
    b.bind().await.expect("bind")
}

fn app_code(e: &ConnectionError) -> Option<u64> {
    match e {
        ConnectionError::ApplicationClosed(c) => Some(c.error_code.into_inner()),
        _ => None,
    }
}

async fn run_case(
    target_self: bool,
    closed: bool,
    alpn: &[u8],
    dh: &[HookSpec],
    ah: &[HookSpec],
) -> (Vec<(u8, u64)>, Dial, Vec<(u8, u64)>, Acc) {
    let dlog: Log = Default::default();
    let alog: Log = Default::default();
    let acc = bind(ah, &alog, vec![ALPN.to_vec()]).await;
    let dial = bind(dh, &dlog, vec![]).await;
    let acc_addr = acc.addr();

    let acc2 = acc.clone();
    let acc_task = tokio::spawn(async move {
        let Some(incoming) = acc2.accept().await else { return Acc::NoIncoming };
        match incoming.await {
            Ok(conn) => {
                if let Ok(mut s) = conn.open_uni().await {
                    let _ = s.write_all(&[1]).await;
                    let _ = s.finish();
                }
                let reason = conn.closed().await;
                app_code(&reason).map_or(Acc::Other, Acc::Closed)
            }
            Err(ConnectingError::LocallyRejected { .. }) => Acc::Rejected,
            Err(ConnectingError::ConnectionError { source, .. }) => {
                app_code(&source).map_or(Acc::Handshake, Acc::Closed)
            }
            Err(_) => Acc::Handshake,
        }
    });

    if closed {
        dial.close().await;
    }
    let addr = if target_self { dial.addr() } else { acc_addr };
    let d = match dial.connect_with_opts(addr, alpn, Default::default()).await {
        Err(e) => Dial::Pre(match e {
            ConnectWithOptsError::EndpointClosed { .. } => 1,
            ConnectWithOptsError::LocallyRejected { .. } => 2,
            ConnectWithOptsError::SelfConnect { .. } => 3,
            ConnectWithOptsError::InvalidAlpn { .. } => 4,
            _ => 9,
        }),
        Ok(connecting) => match tokio::time::timeout(Duration::from_secs(15), connecting).await {
            Err(_) => Dial::Handshake,
            Ok(Err(ConnectingError::LocallyRejected { .. })) => Dial::Rejected,
            Ok(Err(_)) => Dial::Handshake,
            Ok(Ok(conn)) => {
                let r = tokio::time::timeout(Duration::from_secs(15), async {
                    let mut s = conn.accept_uni().await?;
                    let mut b = [0u8; 1];
                    match s.read_exact(&mut b).await {
                        Ok(()) => Ok(()),
                        Err(_) => Err(conn.closed().await),
                    }
                })
                .await;
                match r {
                    Ok(Ok(())) => {
                        conn.close(DONE_CODE.into(), b"done");
                        Dial::Established
                    }
                    Ok(Err(e)) => app_code(&e).map_or(Dial::Lost, Dial::PeerClosed),
                    Err(_) => Dial::Lost,
                }
            }
        },
    };
    // what the acceptor saw
    let wait = if matches!(d, Dial::Pre(_)) { Duration::from_millis(150) } else { Duration::from_secs(15) };
    let mut acc_task = acc_task;
    let a = match tokio::time::timeout(wait, &mut acc_task).await {
        Ok(r) => r.unwrap_or(Acc::Other),
        Err(_) => {
            acc.close().await;
            tokio::time::timeout(Duration::from_secs(10), acc_task).await.ok().and_then(|r| r.ok()).unwrap_or(Acc::Other)
        }
    };
    let _ = tokio::time::timeout(Duration::from_secs(10), async {
        dial.close().await;
        acc.close().await;
    })
    .await;
    (dlog.lock().unwrap().clone(), d, alog.lock().unwrap().clone(), a)
}

fn coq_log(l: &[(u8, u64)], phase: u8) -> String {
    coq_list(l.iter().filter(|(p, _)| *p == phase), |(_, i)| i.to_string())
}

fn run(raw: &str) -> (String, String) {
    let t: Vec<&str> = raw.split_whitespace().collect();
    let target_self = t[0] == "s";
    let closed = t[1] == "c";
    let (alpn, alpn_coq): (&[u8], &str) = match t[2] {
        "e" => (b"", "C42.AlpnEmpty"),
        "u" => (ALPN_UNREG, "C42.AlpnUnserved"),
        _ => (ALPN, "C42.AlpnServed"),
    };
    let dh = hooks_parse(t[3]);
    let ah = hooks_parse(t[4]);
    let coq_in = format!(
        "(C42.mkIn {} {} {} {} {})",
        coq_bool(target_self),
        coq_bool(closed),
        alpn_coq,
        hooks_coq(&dh),
        hooks_coq(&ah)
    );
    let (dh2, ah2) = (dh.clone(), ah.clone());
    let served = t[2] == "a";
    let r = catch(move || {
        // An outcome that can only come from a deadline or a lost connection is re-run (up to
        // twice) before it is reported: a disagreement has to reproduce to count.
        let mut attempt = 0;
        loop {
            let rt = tokio::runtime::Builder::new_current_thread().enable_all().build().unwrap();
            let out = rt.block_on(run_case(target_self, closed, alpn, &dh2, &ah2));
            rt.shutdown_timeout(Duration::from_secs(2));
            let soft = matches!(out.1, Dial::Lost)
                || matches!(out.3, Acc::Other)
                || (served && matches!(out.1, Dial::Handshake));
            attempt += 1;
            if !soft || attempt >= 3 {
                break out;
            }
        }
    });
    let out = match &r {
        Caught::Value((dl, d, al, a)) => {
            let d = match d {
                Dial::Pre(k) => format!("(C42.DPre {k})"),
                Dial::Handshake => "C42.DHandshake".into(),
                Dial::Rejected => "C42.DRejected".into(),
                Dial::Established => "C42.DEstablished".into(),
                Dial::PeerClosed(c) => format!("(C42.DPeerClosed {c})"),
                Dial::Lost => "C42.DLost".into(),
            };
            let a = match a {
                Acc::NoIncoming => "C42.ANoIncoming".into(),
                Acc::Handshake => "C42.AHandshake".into(),
                Acc::Rejected => "C42.ARejected".into(),
                Acc::Closed(c) => format!("(C42.AClosed {c})"),
                Acc::Other => "C42.AOther".into(),
            };
            format!(
                "(Ok (C42.mkOut {} {} {d} {} {} {a}))",
                coq_log(dl, 0),
                coq_log(dl, 1),
                coq_log(al, 0),
                coq_log(al, 1)
            )
        }
        Caught::Panicked(_) => "Panic".to_string(),
    };
    (coq_in, out)
}

fn main() {
    main_with(generate, run);
}
