//! Shared helpers for the correspondence harness binaries.
//!
//! Protocol (every bin):  `<bin> gen <seed> <n>` prints one raw case per line;
//! `<bin> run` reads raw cases on stdin and prints
//! `raw \t coq-input-term \t coq-impl-output-term` per case.
//! The Coq terms are evaluated by `judge` of the property's model.

use std::io::{BufRead, Write};

/// SplitMix64 — the single PRNG every generator derives its choices from.
#[derive(Clone, Debug)]
pub struct Rng(pub u64);

impl Rng {
    pub fn new(seed: u64) -> Self {
        Rng(seed ^ 0x9E37_79B9_7F4A_7C15)
    }
    pub fn next_u64(&mut self) -> u64 {
        self.0 = self.0.wrapping_add(0x9E37_79B9_7F4A_7C15);
        let mut z = self.0;
        z = (z ^ (z >> 30)).wrapping_mul(0xBF58_476D_1CE4_E5B9);
        z = (z ^ (z >> 27)).wrapping_mul(0x94D0_49BB_1331_11EB);
        z ^ (z >> 31)
    }
    /// uniform in 0..n (n > 0)
    pub fn below(&mut self, n: u64) -> u64 {
        self.next_u64() % n
    }
    pub fn range(&mut self, lo: u64, hi_incl: u64) -> u64 {
        lo + self.below(hi_incl - lo + 1)
    }
    pub fn chance(&mut self, num: u64, den: u64) -> bool {
        self.below(den) < num
    }
    pub fn pick<'a, T>(&mut self, xs: &'a [T]) -> &'a T {
        &xs[self.below(xs.len() as u64) as usize]
    }
    pub fn bytes(&mut self, n: usize) -> Vec<u8> {
        (0..n).map(|_| self.next_u64() as u8).collect()
    }
}

/// Mirror of Coq `Lib.Base.fill n seed` (an LCG byte stream).
pub fn fill(n: usize, seed: u64) -> Vec<u8> {
    let mut x = seed as u128;
    let mut out = Vec::with_capacity(n);
    for _ in 0..n {
        x = (x * 1103515245 + 12345) % 2147483648;
        out.push(((x / 65536) % 256) as u8);
    }
    out
}

/// A byte string given either literally (hex) or as a `fill` recipe.
#[derive(Clone, Debug)]
pub enum Bytes {
    Hex(Vec<u8>),
    Fill(usize, u64),
}

impl Bytes {
    pub fn to_vec(&self) -> Vec<u8> {
        match self {
            Bytes::Hex(v) => v.clone(),
            Bytes::Fill(n, s) => fill(*n, *s),
        }
    }
    /// raw token: `h:<hex>` (`h:` for empty) or `f:<len>:<seed>`
    pub fn raw(&self) -> String {
        match self {
            Bytes::Hex(v) => format!("h:{}", hex(v)),
            Bytes::Fill(n, s) => format!("f:{n}:{s}"),
        }
    }
    pub fn parse(tok: &str) -> Bytes {
        if let Some(h) = tok.strip_prefix("h:") {
            Bytes::Hex(unhex(h))
        } else if let Some(r) = tok.strip_prefix("f:") {
            let (n, s) = r.split_once(':').expect("fill recipe");
            Bytes::Fill(n.parse().unwrap(), s.parse().unwrap())
        } else {
            panic!("bad bytes token {tok}")
        }
    }
    pub fn coq(&self) -> String {
        match self {
            Bytes::Hex(v) => coq_hex(v),
            Bytes::Fill(n, s) => format!("(fill {n} {s})"),
        }
    }
    /// random bytes of length n: literal when short, recipe when long
    pub fn random(rng: &mut Rng, n: usize) -> Bytes {
        if n <= 64 {
            Bytes::Hex(rng.bytes(n))
        } else {
            Bytes::Fill(n, rng.below(1 << 31))
        }
    }
}

pub fn hex(v: &[u8]) -> String {
    let mut s = String::with_capacity(v.len() * 2);
    for b in v {
        s.push_str(&format!("{b:02x}"));
    }
    s
}

pub fn unhex(s: &str) -> Vec<u8> {
    let b = s.as_bytes();
    assert!(b.len() % 2 == 0, "odd hex");
    (0..b.len() / 2)
        .map(|i| u8::from_str_radix(&s[2 * i..2 * i + 2], 16).expect("hex"))
        .collect()
}

/// Coq term for a byte string (type `bytes` = `list N`).
pub fn coq_hex(v: &[u8]) -> String {
    format!("(hex \"{}\")", hex(v))
}

/// Coq term for an ASCII/UTF-8 string, as bytes.
pub fn coq_str_bytes(s: &str) -> String {
    coq_hex(s.as_bytes())
}

pub fn coq_opt<T>(o: Option<T>, f: impl Fn(T) -> String) -> String {
    match o {
        Some(x) => format!("(Some {})", f(x)),
        None => "None".to_string(),
    }
}

pub fn coq_list<T>(xs: impl IntoIterator<Item = T>, f: impl Fn(T) -> String) -> String {
    let v: Vec<String> = xs.into_iter().map(f).collect();
    format!("[{}]", v.join("; "))
}

pub fn coq_bool(b: bool) -> String {
    if b { "true".into() } else { "false".into() }
}

/// Coq term for an integer as Z.
pub fn coq_z(z: i128) -> String {
    format!("({z})%Z")
}

/// Coq `res` from a caught call: Ok(v) -> `(Ok v)`, Err(code) -> `(Err code)`, panic -> `Panic`.
pub fn coq_res<T>(r: &Caught<Result<T, u64>>, f: impl Fn(&T) -> String) -> String {
    match r {
        Caught::Value(Ok(v)) => format!("(Ok {})", f(v)),
        Caught::Value(Err(e)) => format!("(Err {e})"),
        Caught::Panicked(_) => "Panic".to_string(),
    }
}

#[derive(Debug)]
pub enum Caught<T> {
    Value(T),
    Panicked(String),
}

/// Runs `f`, catching panics (the default panic message is silenced).
pub fn catch<T>(f: impl FnOnce() -> T) -> Caught<T> {
    silence_panics();
    match std::panic::catch_unwind(std::panic::AssertUnwindSafe(f)) {
        Ok(v) => Caught::Value(v),
        Err(e) => {
            let msg = if let Some(s) = e.downcast_ref::<&str>() {
                s.to_string()
            } else if let Some(s) = e.downcast_ref::<String>() {
                s.clone()
            } else {
                "panic".to_string()
            };
            Caught::Panicked(msg)
        }
    }
}

pub fn silence_panics() {
    static ONCE: std::sync::Once = std::sync::Once::new();
    ONCE.call_once(|| std::panic::set_hook(Box::new(|_| {})));
}

/// Standard `main`: dispatches `gen <seed> <n>` and `run`.
/// `gen(rng, index) -> raw case`, `run(raw) -> (coq_input, coq_output)`.
pub fn main_with(
    generate: impl Fn(&mut Rng, u64, u64) -> String,
    run: impl Fn(&str) -> (String, String),
) {
    main_with_consts(generate, run, &[])
}

/// Like [`main_with`], plus `consts`: prints `NAME=value` lines (values of the
/// constants as the compiled crate has them) for the cross-check with Gen/Consts.v.
pub fn main_with_consts(
    generate: impl Fn(&mut Rng, u64, u64) -> String,
    run: impl Fn(&str) -> (String, String),
    consts: &[(&str, i128)],
) {
    let args: Vec<String> = std::env::args().collect();
    let out = std::io::stdout();
    let mut out = std::io::BufWriter::new(out.lock());
    match args.get(1).map(|s| s.as_str()) {
        Some("gen") => {
            let seed: u64 = args[2].parse().expect("seed");
            let n: u64 = args[3].parse().expect("n");
            let mut rng = Rng::new(seed);
            for i in 0..n {
                let mut sub = Rng::new(rng.next_u64());
                writeln!(out, "{}", generate(&mut sub, i, n)).unwrap();
            }
        }
        Some("run") => {
            let stdin = std::io::stdin();
            for line in stdin.lock().lines() {
                let line = line.unwrap();
                let line = line.trim();
                if line.is_empty() || line.starts_with('#') {
                    continue;
                }
                let (i, o) = run(line);
                writeln!(out, "{line}\t{i}\t{o}").unwrap();
            }
        }
        Some("consts") => {
            for (k, v) in consts {
                writeln!(out, "{k}={v}").unwrap();
            }
        }
        _ => {
            eprintln!("usage: {} gen <seed> <n> | run < cases", args[0]);
            std::process::exit(2);
        }
    }
}
